/* libFuzzer target for jellyfysh/scheduler/heap_scheduler/heap.c with an in-target reference model.
 *
 * bytes -> operations on the raw C heap as HeapScheduler drives it:
 *   push(h, t)     insert(q, r, handler, counter = min_valid[h])         (only if h has no live entry)
 *   trash(h)       min_valid[h]++                                        (lazy deletion)
 *   root           must return a live entry with the minimal (q, r) among live entries, or the empty sentinel
 *   delete(h)      delete_events(handler): removes every entry of h, keeps all others, min_valid[h] = 0
 *   scan           entry(i) enumerates a valid heap whose multiset is within the model's multiset and contains
 *                  every live entry
 * Times come from a 16-value alphabet (4 quotients x 4 remainders) to force ties and equal quotients.
 * Oracle failures abort(); memory errors are reported by ASan/UBSan. */
#include <stdint.h>
#include <stdio.h>
#include <stdlib.h>
#include <string.h>
#include <math.h>
#include "heap.h"

#define NH 24
#define MAXC 700   /* counters per handler within one input */

static double mq[NH][MAXC], mr[NH][MAXC];
static unsigned char present[NH][MAXC];
static unsigned int stamp[NH][MAXC], cur_stamp;
static uint min_valid[NH];
static int live[NH];       /* 1 if h has a live entry (counter == min_valid[h]) */
static int total_present;

static int valid_cb(void *sched, void *handler, uint counter) {
    (void) sched;
    int h = (int) ((uintptr_t) handler) - 1;
    if (h < 0 || h >= NH) { fprintf(stderr, "ORACLE: callback got unknown handler %p\n", handler); abort(); }
    return min_valid[h] > counter;
}

static int less(double q1, double r1, double q2, double r2) { return q1 < q2 || (q1 == q2 && r1 < r2); }

static void fail(const char *msg) { fprintf(stderr, "ORACLE: %s\n", msg); abort(); }

/* (handler, counter) identifies an entry: a handler is pushed at most once per counter value */
static void scan(struct Heap *heap, int exact) {
    double pq[4] = {0, 0, 0, 0};
    (void) pq;
    cur_stamp++;
    int n = 0;
    static struct HeapEntry seen[NH * MAXC + 8];
    for (uint i = 0; ; i++) {
        struct HeapEntry e = entry(heap, i);
        if (e.event_handler == NULL) break;
        if (n >= NH * MAXC) fail("entry() enumerates more entries than were ever inserted");
        seen[n++] = e;
    }
    for (int p = 1; p < n; p++) { /* seen[p] is heap position p+1, its parent is heap position (p+1)/2 */
        int parent = (p + 1) / 2 - 1;
        if (less(seen[p].time_quotient, seen[p].time_remainder, seen[parent].time_quotient, seen[parent].time_remainder))
            fail("heap order violated (child smaller than parent)");
    }
    for (int i = 0; i < n; i++) {
        int h = (int) ((uintptr_t) seen[i].event_handler) - 1;
        uint c = seen[i].counter;
        if (h < 0 || h >= NH || c >= MAXC || !present[h][c]) fail("entry() returned an entry that was never inserted or was already deleted");
        if (stamp[h][c] == cur_stamp) fail("entry() returned the same entry twice");
        if (mq[h][c] != seen[i].time_quotient || mr[h][c] != seen[i].time_remainder) fail("entry() returned an entry with a corrupted time");
        stamp[h][c] = cur_stamp;
    }
    if (n != total_present) {
        for (int h = 0; h < NH; h++) {
            for (uint c = 0; c <= min_valid[h] && c < MAXC; c++) { /* counters above min_valid were never pushed */
                if (present[h][c] && stamp[h][c] != cur_stamp) {
                    if (c >= min_valid[h]) fail("a live entry is missing from the heap");
                    if (exact) fail("an entry of another handler disappeared");
                    present[h][c] = 0; /* a stale entry that root() discarded lazily */
                    total_present--;
                }
            }
        }
        if (n != total_present) fail("model and heap disagree on the number of entries");
    }
}

static void push(struct Heap *heap, int h, double q, double r) {
    if (live[h] || min_valid[h] >= MAXC) return;
    size_t bytes = insert(heap, q, r, (void *) (uintptr_t) (h + 1), min_valid[h]);
    if (bytes == (size_t) -1) fail("insert reported an allocation failure");
    uint c = min_valid[h];
    mq[h][c] = q; mr[h][c] = r; present[h][c] = 1; total_present++;
    live[h] = 1;
}

int LLVMFuzzerTestOneInput(const uint8_t *data, size_t size) {
    struct Heap *heap = construct_heap();
    if (!heap) return 0;
    memset(present, 0, sizeof(present));
    total_present = 0;
    for (int h = 0; h < NH; h++) { min_valid[h] = 0; live[h] = 0; }
    static const double QS[4] = {0.0, 1.0, 2.0, 1099511627776.0};
    static const double RS[4] = {0.0, 0.25, 0.5, 0.9999999999999999};
    size_t i = 0;
    while (i < size) {
        uint8_t op = data[i++];
        int kind = op & 7;
        if (kind <= 2) { /* push */
            if (i + 1 >= size) break;
            int h = data[i++] % NH;
            uint8_t t = data[i++];
            push(heap, h, QS[t & 3], RS[(t >> 2) & 3]);
        } else if (kind == 3) { /* trash */
            if (i >= size) break;
            int h = data[i++] % NH;
            if (min_valid[h] + 1 < MAXC) { min_valid[h]++; live[h] = 0; }
        } else if (kind == 4 || kind == 5) { /* root */
            struct HeapEntry top = root(heap, NULL, valid_cb);
            int have = 0; double bq = 0, br = 0;
            for (int h = 0; h < NH; h++) {
                if (!live[h]) continue;
                uint c = min_valid[h];
                if (!have || less(mq[h][c], mr[h][c], bq, br)) { bq = mq[h][c]; br = mr[h][c]; have = 1; }
            }
            if (!have) {
                if (top.event_handler != NULL) fail("root() returned an entry although no live entry exists");
            } else {
                if (top.event_handler == NULL) fail("root() returned the empty sentinel although a live entry exists");
                int h = (int) ((uintptr_t) top.event_handler) - 1;
                if (h < 0 || h >= NH || !live[h]) fail("root() returned a trashed entry");
                if (top.counter != min_valid[h]) fail("root() returned a stale entry of a handler");
                if (top.time_quotient != bq || top.time_remainder != br) fail("root() is not the minimal live time");
                if (mq[h][top.counter] != top.time_quotient || mr[h][top.counter] != top.time_remainder)
                    fail("root() returned a time that is not the handler's live time");
            }
            scan(heap, 0);
        } else if (kind == 6) { /* delete_events: what HeapScheduler does when the counter overflows */
            if (i >= size) break;
            int h = data[i++] % NH;
            scan(heap, 0); /* sync lazily discarded stale entries first */
            delete_events(heap, (void *) (uintptr_t) (h + 1));
            for (uint c = 0; c <= min_valid[h] && c < MAXC; c++) if (present[h][c]) { present[h][c] = 0; total_present--; }
            min_valid[h] = 0;
            live[h] = 0;
            scan(heap, 1);
        } else { /* burst: trash-and-repush many handlers to grow the heap across reallocation sizes (64, 128, 256, ...);
                    odd arguments fill the heap exactly up to the next power-of-two capacity (no spare slot left
                    unless the code keeps one), the place where an off-by-one in the growth rule shows */
            if (i >= size) break;
            int n = data[i++];
            if (n & 1) {
                scan(heap, 0);
                int entries = total_present + 1; /* + sentinel */
                int target = 64;
                while (target < entries + 1 + (n >> 5)) target *= 2;
                n = target - entries;
                if (n > 300) n = 300;
            }
            for (int k = 0; k < n; k++) {
                int h = k % NH;
                if (live[h] && min_valid[h] + 1 < MAXC) { min_valid[h]++; live[h] = 0; }
                push(heap, h, QS[(k * 7 + n) & 3], RS[(k * 3 + n) & 3]);
            }
        }
    }
    scan(heap, 0);
    destroy_heap(heap);
    return 0;
}
