/* libFuzzer target for jellyfysh/scheduler/heap_scheduler/heap.c with an in-target reference model.
 *
 * bytes -> operations on the raw C heap as HeapScheduler drives it:
 *   push(h, t)     insert(q, r, handler, counter = min_valid[h])         (only if h has no live entry)
 *   trash(h)       min_valid[h]++                                        (lazy deletion)
 *   root           must return a live entry with the minimal (q, r) among live entries, or the empty sentinel
 *   delete(h)      delete_events(handler): removes every entry of h, keeps all others, min_valid[h] = 0
 *   scan           entry(i) enumerates a valid heap whose multiset is within the model's multiset and contains
 *                  every live entry
 * Times come from a 16-value alphabet (4 quotients x 4 remainders) to force ties and equal quotients.
 * Oracle failures abort(); memory errors are reported by ASan/UBSan. */
#include <stdint.h>
#include <stdio.h>
#include <stdlib.h>
#include <string.h>
#include <math.h>
#include "heap.h"

#define NH 24
#define MAXE 4096

struct MEntry { double q, r; int h; uint counter; int present; };
static struct MEntry model[MAXE];
static int model_n;
static uint min_valid[NH];
static int live_index[NH]; /* index into model of the live entry of h, or -1 */

static int valid_cb(void *sched, void *handler, uint counter) {
    (void) sched;
    int h = (int) ((uintptr_t) handler) - 1;
    if (h < 0 || h >= NH) { fprintf(stderr, "ORACLE: callback got unknown handler %p\n", handler); abort(); }
    return min_valid[h] > counter;
}

static int less(double q1, double r1, double q2, double r2) { return q1 < q2 || (q1 == q2 && r1 < r2); }

static void fail(const char *msg) { fprintf(stderr, "ORACLE: %s\n", msg); abort(); }

static void scan(struct Heap *heap, int exact) {
    /* enumerate through entry(); check heap order, multiset inclusion, presence of every live entry */
    static struct HeapEntry seen[MAXE];
    int n = 0;
    for (uint i = 0; ; i++) {
        struct HeapEntry e = entry(heap, i);
        if (e.event_handler == NULL) break;
        if (n >= MAXE) fail("entry() enumerates more entries than were ever inserted");
        seen[n++] = e;
    }
    for (int p = 1; p < n; p++) { /* seen[p] is heap position p+1, parent position (p+1)/2 -> index (p+1)/2-1 */
        int parent = (p + 1) / 2 - 1;
        if (less(seen[p].time_quotient, seen[p].time_remainder, seen[parent].time_quotient, seen[parent].time_remainder))
            fail("heap order violated (child smaller than parent)");
    }
    static int used[MAXE];
    memset(used, 0, sizeof(int) * (size_t) model_n);
    for (int i = 0; i < n; i++) {
        int found = -1;
        for (int j = 0; j < model_n; j++) {
            if (!used[j] && model[j].present && model[j].q == seen[i].time_quotient && model[j].r == seen[i].time_remainder
                && model[j].h == (int) ((uintptr_t) seen[i].event_handler) - 1 && model[j].counter == seen[i].counter) {
                found = j; break;
            }
        }
        if (found < 0) fail("entry() returned an entry that was never inserted or was already deleted");
        used[found] = 1;
    }
    for (int j = 0; j < model_n; j++) {
        if (!model[j].present) continue;
        int is_live = model[j].counter >= min_valid[model[j].h];
        if (!used[j]) {
            if (is_live) fail("a live entry is missing from the heap");
            if (exact) fail("an entry of another handler disappeared");
            model[j].present = 0; /* a stale entry that root() discarded lazily */
        }
    }
}

int LLVMFuzzerTestOneInput(const uint8_t *data, size_t size) {
    struct Heap *heap = construct_heap();
    if (!heap) return 0;
    model_n = 0;
    for (int h = 0; h < NH; h++) { min_valid[h] = 0; live_index[h] = -1; }
    static const double QS[4] = {0.0, 1.0, 2.0, 1099511627776.0};
    static const double RS[4] = {0.0, 0.25, 0.5, 0.9999999999999999};
    size_t i = 0;
    while (i < size) {
        uint8_t op = data[i++];
        int kind = op & 7;
        if (kind <= 2) { /* push */
            if (i + 1 >= size) break;
            int h = data[i++] % NH;
            uint8_t t = data[i++];
            if (live_index[h] >= 0) continue;
            if (model_n >= MAXE - 1) continue;
            double q = QS[t & 3], r = RS[(t >> 2) & 3];
            size_t bytes = insert(heap, q, r, (void *) (uintptr_t) (h + 1), min_valid[h]);
            if (bytes == (size_t) -1) fail("insert reported an allocation failure");
            model[model_n] = (struct MEntry) {q, r, h, min_valid[h], 1};
            live_index[h] = model_n++;
        } else if (kind == 3) { /* trash */
            if (i >= size) break;
            int h = data[i++] % NH;
            min_valid[h]++;
            live_index[h] = -1;
        } else if (kind == 4 || kind == 5) { /* root */
            struct HeapEntry top = root(heap, NULL, valid_cb);
            int have = 0; double bq = 0, br = 0;
            for (int h = 0; h < NH; h++) {
                if (live_index[h] < 0) continue;
                struct MEntry *m = &model[live_index[h]];
                if (!have || less(m->q, m->r, bq, br)) { bq = m->q; br = m->r; have = 1; }
            }
            if (!have) {
                if (top.event_handler != NULL) fail("root() returned an entry although no live entry exists");
            } else {
                if (top.event_handler == NULL) fail("root() returned the empty sentinel although a live entry exists");
                int h = (int) ((uintptr_t) top.event_handler) - 1;
                if (h < 0 || h >= NH || live_index[h] < 0) fail("root() returned a trashed entry");
                if (top.counter < min_valid[h]) fail("root() returned a stale entry of a handler");
                if (top.time_quotient != bq || top.time_remainder != br) fail("root() is not the minimal live time");
                if (model[live_index[h]].q != top.time_quotient || model[live_index[h]].r != top.time_remainder)
                    fail("root() returned a time that is not the handler's live time");
            }
            scan(heap, 0);
        } else if (kind == 6) { /* delete_events: what HeapScheduler does when the counter overflows */
            if (i >= size) break;
            int h = data[i++] % NH;
            scan(heap, 0); /* sync lazily discarded stale entries first */
            delete_events(heap, (void *) (uintptr_t) (h + 1));
            for (int j = 0; j < model_n; j++) if (model[j].present && model[j].h == h) model[j].present = 0;
            min_valid[h] = 0;
            live_index[h] = -1;
            scan(heap, 1);
        } else { /* burst: many pushes of distinct handlers is impossible with NH handlers; re-push after trash */
            if (i >= size) break;
            int n = data[i++] % 200;
            for (int k = 0; k < n && model_n < MAXE - 1; k++) {
                int h = k % NH;
                if (live_index[h] >= 0) { min_valid[h]++; live_index[h] = -1; }
                double q = QS[(k * 7 + n) & 3], r = RS[(k * 3 + n) & 3];
                insert(heap, q, r, (void *) (uintptr_t) (h + 1), min_valid[h]);
                model[model_n] = (struct MEntry) {q, r, h, min_valid[h], 1};
                live_index[h] = model_n++;
            }
        }
    }
    scan(heap, 0);
    destroy_heap(heap);
    return 0;
}
