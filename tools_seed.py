#!/venv/bin/python
"""Confirm a sub-agent's seeded change and file it under /verif/seeded/<name>/.

usage: ./tools_seed.py <ID> <name> [check ids...]
Expects /tmp/seed/<ID>/{wt, <ID>_patch.diff, <ID>_demo.py, <ID>_note.txt}. Steps (all in the scratch worktree):
 1. demo fails with the change, 2. existing suite green with the change, 3. demo passes without it,
 4. quick checks run against the changed tree (VERIF_REPO), 5. files copied to seeded/<name>/ with meta.json."""
import json, os, shutil, subprocess, sys, time
ID, name = sys.argv[1], sys.argv[2]
checks = sys.argv[3:] or [ID]
base = "/tmp/seed/%s" % ID
wt = os.path.join(base, "wt")
out = {"property": ",".join(checks), "source": "independent sub-agent given only the property text", "ran": []}


def sh(cmd, cwd=None, env=None):
    p = subprocess.run(cmd, shell=True, cwd=cwd, env=env, capture_output=True, text=True)
    return p.returncode, (p.stdout + p.stderr)


patch = os.path.join(base, "%s_patch.diff" % ID)
demo = os.path.join(base, "%s_demo.py" % ID)
code, diff = sh("git -C %s diff" % wt)
open(patch, "w").write(diff)
sh("/tmp/seed/build_ext.sh %s" % wt)
c1, o1 = sh("/venv/bin/python ../%s_demo.py" % ID, cwd=wt)
out["ran"].append("demo with change: exit %d" % c1)
c2, o2 = sh("timeout 420 /venv/bin/python -m pytest -q -p no:cacheprovider --timeout=900 -n 8 2>&1 | tail -1", cwd=wt)
out["ran"].append("existing suite with change: %s" % o2.strip())
sh("git apply -R %s" % patch, cwd=wt); sh("/tmp/seed/build_ext.sh %s" % wt)   # (git stash is shared between worktrees)
c3, o3 = sh("/venv/bin/python ../%s_demo.py" % ID, cwd=wt)
out["ran"].append("demo without change: exit %d" % c3)
sh("git apply %s" % patch, cwd=wt); sh("/tmp/seed/build_ext.sh %s" % wt)
ok = c1 != 0 and c3 == 0 and " passed" in o2 and "failed" not in o2
print("demo with change exit=%d, without exit=%d, suite: %s -> %s" % (c1, c3, o2.strip(), "CONFIRMED" if ok else "REJECTED"))
results = {}
for chk in checks:
    env = dict(os.environ, VERIF_REPO=wt, VERIF_EVIDENCE_DIR=os.path.join(base, "_e"), VERIF_REPLAY_DIR=os.path.join(base, "_r"))
    t0 = time.time()
    c, o = sh("./check %s --tier quick" % chk, cwd="/verif", env=env)
    sig = [l.strip() for l in o.splitlines() if l.strip().startswith("signature:")]
    results[chk] = {"exit": c, "signatures": sig[:4], "wall_s": round(time.time() - t0)}
    print("check %s against the change: exit %d %s (%ds)" % (chk, c, "; ".join(sig)[:200], time.time() - t0))
    if c == 2:
        print(o[-1500:])
out["checks_quick"] = results
out["needs_to_manifest"] = open(os.path.join(base, "%s_note.txt" % ID)).read() if os.path.exists(os.path.join(base, "%s_note.txt" % ID)) else ""
out["confirmed"] = ok
if ok:
    dst = os.path.join("/verif/seeded", name)
    os.makedirs(dst, exist_ok=True)
    shutil.copy(patch, os.path.join(dst, "patch.diff"))
    shutil.copy(demo, os.path.join(dst, "demo.py"))
    json.dump(out, open(os.path.join(dst, "meta.json"), "w"), indent=1)
    print("filed under", dst)
