"""In-process run engine: ini text -> mediator -> instrumented run -> callbacks of a monitor.

Mirrors jellyfysh.run.main without argv/logging.  All observation is done by wrapping *instance* attributes of the
objects the real mediator talks to (state handler, scheduler, input-output handler, every event handler); the real
SingleProcessMediator.run loop is executed unchanged.  Private attributes read: Mediator._state_handler/_scheduler/
_activator/_input_output_handler, Activator._taggers/_internal_states."""
import contextlib
import io
import logging
import os
import random
import shutil
import tempfile
from configparser import ConfigParser

from .build import HarnessError


class Stop(Exception):
    """Raised by the engine itself to end a run after the event budget."""


def reset_globals():
    import jellyfysh.setting as setting
    from jellyfysh.base import factory
    from jellyfysh.activator.tagger.factor_type_maps import FactorTypeMaps
    setting.reset()
    FactorTypeMaps._instance = None
    factory.used_sections.clear()


def freeze_unit(unit):
    ts = unit.time_stamp
    return (tuple(unit.position) if unit.position is not None else None,
            tuple(unit.velocity) if unit.velocity is not None else None,
            (ts.quotient, ts.remainder) if ts is not None else None)


def snapshot_tree(cnodes, out=None, structure=None):
    """identifier -> (position, velocity, (quotient, remainder)); structure: identifier -> (weight, children ids, charge)"""
    if out is None:
        out = {}
    for cnode in cnodes:
        u = cnode.value
        out[u.identifier] = freeze_unit(u)
        if structure is not None:
            structure[u.identifier] = (cnode.weight, tuple(ch.value.identifier for ch in cnode.children),
                                       tuple(sorted(u.charge.items())) if u.charge else None)
        snapshot_tree(cnode.children, out, structure)
    return out


class Context(object):
    """What a monitor may look at."""

    def __init__(self):
        self.mediator = None
        self.state_handler = None
        self.scheduler = None
        self.activator = None
        self.io = None
        self.handlers = []
        self.taggers = []
        self.tagger_of = {}
        self.internal_states = []
        self.config = None
        self.setting = None
        self.commits = 0
        self.workdir = None
        self.warnings = []

    def global_snapshot(self, structure=None):
        return snapshot_tree(self.state_handler.extract_global_state(), None, structure)


class Monitor(object):
    """Base class: all hooks are no-ops."""

    def on_built(self, ctx): pass
    def on_send_event_time(self, ctx, handler, in_state_snapshot, time, extra): pass
    def on_push(self, ctx, time, handler): pass
    def on_before_get(self, ctx): pass
    def on_get(self, ctx, handler): pass
    def on_send_out_state(self, ctx, handler, args, out_state): pass
    def on_commit(self, ctx, handler, before, after, out_ids): pass
    def on_trash(self, ctx, handler): pass
    def on_write(self, ctx, name, args): pass
    def on_end(self, ctx, reason): pass


class _WarningCatcher(logging.Handler):
    def __init__(self, sink):
        super().__init__(level=logging.WARNING)
        self.sink = sink

    def emit(self, record):
        self.sink.append(record.getMessage())


def prepare_config(ini_text, workdir):
    """Parse the ini text; input files (factor sets) are made absolute inside the scratch copy of the package (shipped
    configurations are written to be run from the package directory), output files are redirected into workdir."""
    from . import build as _build
    package_dir = os.path.join(_build.scratch_root(), "jellyfysh")
    config = ConfigParser()
    config.read_string(ini_text)
    for section in config.sections():
        if config.has_option(section, "filename"):
            value = config.get(section, "filename")
            if os.path.isabs(value) and os.path.exists(value):
                continue
            if os.path.exists(os.path.join(package_dir, value)) and not value.startswith("output"):
                config.set(section, "filename", os.path.join(package_dir, value))
            else:
                config.set(section, "filename", os.path.join(workdir, section + "_" + os.path.basename(value)))
    return config


def _cluster_nodes(nodes, fraction):
    """Initial configuration as an input: contract all objects towards the origin corner by `fraction` (whole objects are
    translated rigidly), so that several units share a cell."""
    import jellyfysh.setting as setting
    pb = setting.periodic_boundaries
    for root in nodes:
        old = list(root.value.position)
        shift = [x * fraction - x for x in old]

        def move(node):
            node.value.position = [pb.correct_position_entry(x + shift[i], i) for i, x in enumerate(node.value.position)]
            for ch in node.children:
                move(ch)
        move(root)
    return nodes


def _lattice_nodes(nodes):
    """Initial configuration as an input: every object is translated rigidly so that its centre sits on a site of a
    regular lattice (non-overlapping start for hard-core systems built with the random input handler)."""
    import math
    import jellyfysh.setting as setting
    from jellyfysh.setting import hypercuboid_setting
    pb = setting.periodic_boundaries
    dim = setting.dimension
    m = max(1, math.ceil(len(nodes) ** (1.0 / dim) - 1e-9))
    lengths = hypercuboid_setting.system_lengths
    for k, root in enumerate(nodes):
        idx, rest = [], k
        for _ in range(dim):
            idx.append(rest % m)
            rest //= m
        site = [(idx[i] + 0.5) * lengths[i] / m for i in range(dim)]
        shift = [site[i] - root.value.position[i] for i in range(dim)]

        def move(node):
            node.value.position = [pb.correct_position_entry(x + shift[i], i) for i, x in enumerate(node.value.position)]
            for ch in node.children:
                move(ch)
        move(root)
    return nodes


def build(ini_text, sim_seed, workdir, cluster=None):
    """Build setting + mediator exactly as run.main does; returns a Context."""
    from jellyfysh.base import factory
    from jellyfysh.base.strings import to_camel_case
    import jellyfysh.setting as setting
    reset_globals()
    random.seed(sim_seed)
    ctx = Context()
    ctx.workdir = workdir
    ctx.config = prepare_config(ini_text, workdir)
    config = ctx.config
    catcher = _WarningCatcher(ctx.warnings)
    logging.getLogger("jellyfysh").addHandler(catcher)
    logging.getLogger("jellyfysh").propagate = False
    ctx._catcher = catcher
    from jellyfysh.input_output_handler.input_output_handler import InputOutputHandler
    real_read = InputOutputHandler.read
    if cluster == "lattice":
        def read(self):
            return _lattice_nodes(real_read(self))
        InputOutputHandler.read = read
    elif cluster:
        def read(self):
            return _cluster_nodes(real_read(self), cluster)
        InputOutputHandler.read = read
    try:
        with contextlib.redirect_stdout(io.StringIO()):
            factory.build_from_config(config, to_camel_case(config.get("Run", "setting")), "jellyfysh.setting")
            ctx.mediator = factory.build_from_config(config, to_camel_case(config.get("Run", "mediator")),
                                                     "jellyfysh.mediator")
    finally:
        InputOutputHandler.read = real_read
    m = ctx.mediator
    ctx.setting = setting
    ctx.state_handler = m._state_handler
    ctx.scheduler = m._scheduler
    ctx.activator = m._activator
    ctx.io = m._input_output_handler
    ctx.handlers = list(ctx.activator.get_event_handlers())
    ctx.taggers = list(ctx.activator._taggers)
    for tagger in ctx.taggers:
        for h in tagger.get_event_handlers():
            ctx.tagger_of[id(h)] = tagger
    ctx.internal_states = list(ctx.activator._internal_states)
    return ctx


def instrument(ctx, monitor, max_events):
    sh, sched, io_h = ctx.state_handler, ctx.scheduler, ctx.io
    depth = {"insert": 0}
    pending_before = {}

    real_insert = sh.insert_into_global_state

    def insert(out_state):
        if depth["insert"] > 0:
            return real_insert(out_state)
        before = ctx.global_snapshot()
        out_ids = list(snapshot_tree(out_state).keys()) if out_state is not None else None
        depth["insert"] += 1
        try:
            real_insert(out_state)
        finally:
            depth["insert"] -= 1
        after = ctx.global_snapshot()
        ctx.commits += 1
        monitor.on_commit(ctx, pending_before.get("handler"), before, after, out_ids)
        if max_events is not None and ctx.commits >= max_events:
            raise Stop()
    sh.insert_into_global_state = insert

    real_push, real_get, real_trash = sched.push_event, sched.get_succeeding_event, sched.trash_event

    def push(time, handler):
        monitor.on_push(ctx, time, handler)
        return real_push(time, handler)

    def get():
        monitor.on_before_get(ctx)
        h = real_get()
        pending_before["handler"] = h
        last = getattr(sched, "_last_returned_event", None)   # private: the time of the entry the scheduler returned
        ctx.last_returned_time = (last[0].quotient, last[0].remainder) if last else None
        monitor.on_get(ctx, h)
        return h

    def trash(handler):
        monitor.on_trash(ctx, handler)
        return real_trash(handler)
    sched.push_event, sched.get_succeeding_event, sched.trash_event = push, get, trash

    real_write = io_h.write

    def write(name, *args):
        monitor.on_write(ctx, name, args)
        if args and args[0] is ctx.mediator:
            # a dump of the instrumented mediator is not written (C19 exercises real dumps); what pickling does to the
            # live objects is emulated by invoking the custom __getstate__ of the scheduler and of the potentials
            for obj in [ctx.scheduler] + [getattr(h, a, None) for h in ctx.handlers
                                          for a in ("_potential", "_bounding_potential")]:
                if obj is not None and "__getstate__" in type(obj).__dict__:
                    obj.__getstate__()
            return None
        return real_write(name, *args)
    io_h.write = write

    for h in ctx.handlers:
        _wrap_handler(ctx, monitor, h)
    _wrap_activator(ctx, monitor)


def _wrap_activator(ctx, monitor):
    """The activator rebinds its own instance attribute get_event_handlers_to_run after the first call; the wrapper
    re-installs itself around whatever the attribute is after every call."""
    act = ctx.activator
    if not hasattr(monitor, "on_activate"):
        return

    def install():
        real = act.get_event_handlers_to_run

        def wrapper(active_state, preceding):
            ret = real(active_state, preceding)
            monitor.on_activate(ctx, {h: (tuple(ids) if ids is not None else None) for h, ids in ret.items()},
                                None)
            if act.get_event_handlers_to_run is not wrapper:
                install()
            return ret
        act.get_event_handlers_to_run = wrapper
    install()


def _wrap_handler(ctx, monitor, h):
    real_time, real_out = h.send_event_time, h.send_out_state

    def send_event_time(*in_state):
        snap = snapshot_tree(in_state[0]) if in_state and in_state[0] is not None else None
        ret = real_time(*in_state)
        if isinstance(ret, tuple):
            t, extra = ret
        else:
            t, extra = ret, None
        monitor.on_send_event_time(ctx, h, snap, t, extra)
        return ret

    def send_out_state(*args):
        out = real_out(*args)
        monitor.on_send_out_state(ctx, h, args, out)
        return out
    h.send_event_time, h.send_out_state = send_event_time, send_out_state


def run(ini_text, sim_seed, max_events, monitor, keep_workdir=False, cluster=None):
    """Instrumented run.  Returns (ctx, reason) with reason in {'end_of_run', 'budget'}; exceptions raised by the
    code under test propagate (the caller classifies them)."""
    from jellyfysh.base.exceptions import EndOfRun
    workdir = tempfile.mkdtemp(prefix="jfrun_")
    ctx = None
    try:
        ctx = build(ini_text, sim_seed, workdir, cluster=cluster)
        monitor.on_built(ctx)
        instrument(ctx, monitor, max_events)
        reason = None
        with contextlib.redirect_stdout(io.StringIO()):
            try:
                ctx.mediator.run()
            except EndOfRun:
                reason = "end_of_run"
            except Stop:
                reason = "budget"
            finally:
                try:
                    ctx.mediator.post_run()
                except Exception:
                    pass
        monitor.on_end(ctx, reason)
        return ctx, reason
    finally:
        if ctx is not None and getattr(ctx, "_catcher", None) is not None:
            logging.getLogger("jellyfysh").removeHandler(ctx._catcher)
        if not keep_workdir:
            shutil.rmtree(workdir, ignore_errors=True)


def run_plain(ini_text, sim_seed):
    """Uninstrumented run to the end of run (for statistics).  Returns the work directory with the output files; the
    caller removes it."""
    from jellyfysh.base.exceptions import EndOfRun
    workdir = tempfile.mkdtemp(prefix="jfrun_")
    ctx = build(ini_text, sim_seed, workdir)
    try:
        with contextlib.redirect_stdout(io.StringIO()):
            try:
                ctx.mediator.run()
            except EndOfRun:
                pass
            ctx.mediator.post_run()
    finally:
        logging.getLogger("jellyfysh").removeHandler(ctx._catcher)
    return workdir, ctx
