"""Entry point behind ./check."""
import argparse
import os
import sys
import traceback


def main(argv=None):
    ap = argparse.ArgumentParser(prog="check")
    ap.add_argument("property")
    ap.add_argument("--tier", default=os.environ.get("VERIF_TIER", "quick"), choices=["quick", "thorough"])
    ap.add_argument("--replay", default=None)
    ap.add_argument("--only", default=None, help="comma separated sub-check names (debugging)")
    ap.add_argument("--jobs", type=int, default=int(os.environ.get("VERIF_JOBS", "16")))
    args = ap.parse_args(argv)
    seed = int(os.environ.get("VERIF_SEED", "1") or "1")
    from . import build, runner
    try:
        build.prepare()
        module = "vlib.props.%s" % args.property
        if args.replay:
            return runner.replay(module, args.replay)
        only = args.only.split(",") if args.only else None
        return runner.run_property(module, args.tier, seed, only=only, jobs=args.jobs)
    except build.HarnessError as exc:
        print("HARNESS-ERROR: %s" % exc, file=sys.stderr)
        return 2
    except Exception:
        print("HARNESS-ERROR: unexpected exception in the harness", file=sys.stderr)
        traceback.print_exc()
        return 2


if __name__ == "__main__":
    code = main()
    sys.stdout.flush()
    sys.stderr.flush()
    sys.exit(code)
