"""Harness-side stand-ins that satisfy the repository's interfaces (built lazily: they subclass repository classes)."""


def make_estimator_class():
    from jellyfysh.estimator.estimator import Estimator

    class HarnessEstimator(Estimator):
        """Estimator whose bounds the harness knows: upper = f(corners, direction), lower = -g(...)."""

        def __init__(self, potential, bound_function, prefactor=1.0, sign=1.0):
            super().__init__(potential=potential, prefactor=prefactor)
            self._bound_function = bound_function
            self._sign = sign      # (an estimator bound to a negative target charge has a negative correction factor)
            self.calls = 0

        def derivative_bound(self, lower_corner, upper_corner, direction, calculate_lower_bound=False):
            super().derivative_bound(lower_corner, upper_corner, direction, calculate_lower_bound)
            self.calls += 1
            upper, lower = self._bound_function(tuple(lower_corner), tuple(upper_corner), direction)
            return (upper, lower) if calculate_lower_bound else (upper,)

        def charge_correction_factor(self, active_charges, target_charges=None):
            def prod(x):
                if isinstance(x, (tuple, list)):
                    out = 0.0
                    for y in x:
                        out += y
                    return out
                return x
            if target_charges is None:
                return self._sign * prod(active_charges)
            return self._sign * prod(active_charges) * prod(target_charges)
    return HarnessEstimator


def make_event_handler_class():
    from jellyfysh.event_handler.event_handler import EventHandler

    class NullEventHandler(EventHandler):
        def send_event_time(self, in_state):
            raise NotImplementedError

        def send_out_state(self):
            raise NotImplementedError
    return NullEventHandler
