"""Shared Hypothesis strategies for floats (construction, not rejection)."""
import math

from hypothesis import strategies as st

DENORM_MIN = 5e-324
BELOW_ONE = math.nextafter(1.0, 0.0)


def floats(lo, hi, **kw):
    return st.floats(min_value=lo, max_value=hi, allow_nan=False, allow_infinity=False, **kw)


@st.composite
def log_uniform(draw, lo, hi):
    """Float whose logarithm is uniform between log(lo) and log(hi) (lo, hi > 0), mantissa drawn separately."""
    elo, ehi = math.log2(lo), math.log2(hi)
    e = draw(st.floats(min_value=elo, max_value=ehi, allow_nan=False))
    x = 2.0 ** e
    if x < lo:
        x = lo
    if x > hi:
        x = hi
    return x


@st.composite
def near(draw, x, ulps=3):
    """x moved by -ulps..+ulps units in the last place."""
    k = draw(st.integers(-ulps, ulps))
    y = x
    for _ in range(abs(k)):
        y = math.nextafter(y, math.inf if k > 0 else -math.inf)
    return y


def step(x, k):
    y = x
    for _ in range(abs(k)):
        y = math.nextafter(y, math.inf if k > 0 else -math.inf)
    return y


def unit_interval_remainders():
    """Remainders of a normalised time: [0, 1) with weight on the ends."""
    return st.one_of(
        st.sampled_from([0.0, DENORM_MIN, 2.0 ** -1074 * 7, 2.0 ** -1022, 2.0 ** -60, 2.0 ** -53, 0.5, BELOW_ONE,
                         math.nextafter(BELOW_ONE, 0.0), 1.0 - 2.0 ** -20]),
        floats(0.0, BELOW_ONE),
        log_uniform(1e-300, 0.999),
        floats(0.0, 2.0 ** -10).map(lambda e: min(BELOW_ONE, max(0.0, 1.0 - e))),
    )


def quotients(max_exp=52):
    """Integral floats in [0, 2**max_exp]."""
    big = 2 ** max_exp
    return st.one_of(
        st.integers(0, 12),
        st.integers(0, big),
        st.integers(0, max_exp).flatmap(lambda e: st.integers(-2, 2).map(lambda d: min(big, max(0, 2 ** e + d)))),
        log_uniform(1.0, float(big)).map(lambda x: int(x)),
    ).map(float)
