"""Scratch copy of the repository's working tree + rebuild of the three cffi extensions.

`import jellyfysh` from outside /repo resolves to a stale non-editable copy in site-packages and the
.so files inside /repo/jellyfysh are not rebuilt when a .c file changes.  Every check therefore works on
a fresh copy of the *working tree* (VERIF_REPO, default /repo) whose extensions are compiled from the
copied .c files.  The copy lives in a mkdtemp directory and is removed at exit.
"""
import atexit
import os
import shutil
import subprocess
import sys
import tempfile

REPO = os.environ.get("VERIF_REPO", "/repo")
GUARD = "JELLYFYSH_VERIF"

BUILD_SCRIPTS = [
    "jellyfysh/scheduler/heap_scheduler/heap_build.py",
    "jellyfysh/potential/merged_image_coulomb_potential/merged_image_coulomb_potential_build.py",
    "jellyfysh/potential/inverse_power_coulomb_bounding_potential/inverse_power_coulomb_bounding_potential_build.py",
]

_scratch = None
_owner_pid = None


class HarnessError(Exception):
    """Anything that is the harness' fault (exit code 2, never a violation)."""


def _cleanup():
    global _scratch
    if _scratch is not None and os.getpid() == _owner_pid:
        shutil.rmtree(_scratch, ignore_errors=True)
        _scratch = None


def scratch_root():
    return _scratch


def prepare():
    """Copy REPO/jellyfysh to a scratch directory, compile the C extensions there, make it importable.

    Returns the scratch root.  Idempotent within a process (and in forked children)."""
    global _scratch, _owner_pid
    if _scratch is not None:
        return _scratch
    os.environ[GUARD] = "1"
    base = os.environ.get("VERIF_SCRATCH_BASE") or tempfile.gettempdir()
    root = tempfile.mkdtemp(prefix="jfverif_", dir=base)
    _scratch, _owner_pid = root, os.getpid()
    atexit.register(_cleanup)
    src = os.path.join(REPO, "jellyfysh")
    if not os.path.isdir(src):
        raise HarnessError("no jellyfysh package under %s" % REPO)
    shutil.copytree(src, os.path.join(root, "jellyfysh"),
                    ignore=shutil.ignore_patterns("*.so", "__pycache__", "*.pyc", "*.o"))
    procs = []
    for script in BUILD_SCRIPTS:
        procs.append((script, subprocess.Popen([sys.executable, script], cwd=root, stdout=subprocess.PIPE,
                                               stderr=subprocess.STDOUT, text=True)))
    for script, proc in procs:
        out, _ = proc.communicate()
        if proc.returncode != 0:
            raise HarnessError("building %s failed:\n%s" % (script, out[-4000:]))
    # remove compiler by-products, keep the shared objects
    for dirpath, _, files in os.walk(root):
        for f in files:
            if f.endswith(".o") or (f.startswith("_") and f.endswith(".c")):
                try:
                    os.remove(os.path.join(dirpath, f))
                except OSError:
                    pass
    sys.path.insert(0, root)
    from . import cover
    cover.start(root)
    for name in list(sys.modules):
        if name == "jellyfysh" or name.startswith("jellyfysh."):
            del sys.modules[name]
    import jellyfysh
    if not os.path.realpath(jellyfysh.__file__).startswith(os.path.realpath(root)):
        raise HarnessError("jellyfysh imported from %s, not from the scratch copy" % jellyfysh.__file__)
    return root
