"""Model energies written from the class docstrings.  Nothing is imported from jellyfysh.potential.

Sign convention of all pair energies: s = r_target - r_active."""
import math


def norm(v):
    return math.sqrt(math.fsum(c * c for c in v))


def inverse_power(k, p, c1c2, s):
    return c1c2 * k / norm(s) ** p


def inverse_power_grad(k, p, c1c2, s, d):
    """dU/ds_d"""
    r = norm(s)
    return -p * c1c2 * k * s[d] / r ** (p + 2)


def lennard_jones(k, sigma, s):
    x = (sigma / norm(s)) ** 6
    return k * (x * x - x)


def lennard_jones_grad(k, sigma, s, d):
    r = norm(s)
    x = (sigma / r) ** 6
    return k * (-12.0 * x * x + 6.0 * x) * s[d] / (r * r)


def displaced_even_power(k, r0, p, s):
    return k * (norm(s) - r0) ** p


def displaced_even_power_grad(k, r0, p, s, d):
    r = norm(s)
    return k * p * (r - r0) ** (p - 1) * s[d] / r


def radial_inverse_power(k, p, c1c2):
    def u(r):
        if r == 0.0:
            return math.copysign(math.inf, c1c2 * k)
        try:
            return c1c2 * k / r ** p
        except (OverflowError, ZeroDivisionError):
            return math.copysign(math.inf, c1c2 * k) if r < 1.0 else 0.0
    return u


def radial_lennard_jones(k, sigma):
    def u(r):
        if r == 0.0:
            return math.inf
        if math.isinf(r):
            return 0.0
        try:
            x = (sigma / r) ** 6
            return k * (x * x - x)
        except OverflowError:
            return math.inf
    return u


def radial_displaced_even_power(k, r0, p):
    return lambda r: k * (r - r0) ** p if not math.isinf(r) else math.inf


def bending(k, phi0, ri, rj, rk):
    """U = k/2 (phi - phi0)^2 with phi the angle at j; the angle is taken as atan2(|a x b|, a.b), which (unlike acos of
    the normalised dot product) is well conditioned for every angle, so that finite differences of it are not noisy."""
    a = [ri[n] - rj[n] for n in range(len(ri))]
    b = [rk[n] - rj[n] for n in range(len(ri))]
    dot = math.fsum(x * y for x, y in zip(a, b))
    if len(a) == 2:
        cross = abs(a[0] * b[1] - a[1] * b[0])
    else:
        cross = norm([a[1] * b[2] - a[2] * b[1], a[2] * b[0] - a[0] * b[2], a[0] * b[1] - a[1] * b[0]])
    phi = math.atan2(cross, dot)
    return 0.5 * k * (phi - phi0) ** 2


def nearest_image(x, L):
    """Representative of x modulo L in [-L/2, L/2]."""
    y = math.fmod(x, L)
    if y > L / 2.0:
        y -= L
    elif y < -L / 2.0:
        y += L
    return y
