"""Independent tin-foil Ewald lattice sum of 1/r in a cubic box of side L (numpy).

psi(s) = sum_n erfc(a|s+nL|)/|s+nL| + 1/(pi L) sum_{m != 0} exp(-pi^2 m^2/(a L)^2)/m^2 cos(2 pi m.s/L) - pi/(a^2 L^3)
with its own splitting parameter (default alpha = a L = 2.6, not the code's 3.45) and generous cut-offs.
grad_psi is the analytic gradient of exactly this expression; self_check() ties it to psi by central differences
and checks alpha-independence."""
import math

import numpy as np
from scipy.special import erfc

_cache = {}


def _lattice(rc, kc):
    key = (rc, kc)
    if key not in _cache:
        r = np.arange(-rc, rc + 1)
        n = np.array(np.meshgrid(r, r, r, indexing="ij")).reshape(3, -1).T.astype(float)
        k = np.arange(-kc, kc + 1)
        m = np.array(np.meshgrid(k, k, k, indexing="ij")).reshape(3, -1).T.astype(float)
        m2 = (m * m).sum(axis=1)
        keep = (m2 > 0) & (m2 <= kc * kc)
        _cache[key] = (n, m[keep], m2[keep])
    return _cache[key]


def psi(s, L, alpha=2.6, rc=3, kc=9):
    n, m, m2 = _lattice(rc, kc)
    s = np.asarray(s, dtype=float)
    a = alpha / L
    v = s[None, :] + n * L
    r = np.sqrt((v * v).sum(axis=1))
    real = (erfc(a * r) / r).sum()
    rec = (np.exp(-math.pi ** 2 * m2 / alpha ** 2) / m2 * np.cos(2.0 * math.pi / L * (m @ s))).sum() / (math.pi * L)
    return float(real + rec - math.pi / (a * a * L ** 3))


def grad_psi(s, L, alpha=2.6, rc=3, kc=9):
    """gradient of psi with respect to s (3 components)"""
    n, m, m2 = _lattice(rc, kc)
    s = np.asarray(s, dtype=float)
    a = alpha / L
    v = s[None, :] + n * L
    r2 = (v * v).sum(axis=1)
    r = np.sqrt(r2)
    radial = -(2.0 * a / math.sqrt(math.pi) * np.exp(-a * a * r2) + erfc(a * r) / r) / r2
    real = (v * radial[:, None]).sum(axis=0)
    w = np.exp(-math.pi ** 2 * m2 / alpha ** 2) / m2 * np.sin(2.0 * math.pi / L * (m @ s))
    rec = -(2.0 * math.pi / L) * (m * w[:, None]).sum(axis=0) / (math.pi * L)
    return (real + rec).tolist()


def self_check():
    """Returns (max alpha-dependence of grad, max |grad - finite difference of psi|) on fixed probe points, L = 1.3."""
    L = 1.3
    pts = [[0.31 * L, -0.12 * L, 0.44 * L], [0.49 * L, 0.49 * L, -0.5 * L], [1e-3 * L, 0.2 * L, -0.3 * L],
           [-0.25 * L, 0.0, 0.5 * L]]
    worst_alpha = 0.0
    worst_fd = 0.0
    for p in pts:
        g1 = grad_psi(p, L, alpha=2.6)
        g2 = grad_psi(p, L, alpha=3.1, rc=3, kc=11)
        worst_alpha = max(worst_alpha, max(abs(x - y) for x, y in zip(g1, g2)) * L * L)
        for d in range(3):
            h = 1e-4 * L

            def at(k):
                q = list(p)
                q[d] += k * h
                return psi(q, L)
            # Richardson-extrapolated central difference (error O(h^4))
            d1 = (at(1) - at(-1)) / (2 * h)
            d2 = (at(2) - at(-2)) / (4 * h)
            fd = (4 * d1 - d2) / 3
            worst_fd = max(worst_fd, abs(fd - g1[d]) * L * L)
    return worst_alpha, worst_fd
