"""Replica z-test against a reference CDF: K bins equiprobable under the reference; per replica the bin
frequencies f_{r,k}; z_k = (mean_r f_{r,k} - p_k) / max(sd_r/sqrt(R), sqrt(p_k (1-p_k)/n_total))."""
import bisect
import math


class TableCDF(object):
    """Piecewise-linear CDF from (x, cdf) pairs."""

    def __init__(self, xs, cs):
        pairs = sorted(zip(xs, cs))
        self.xs = [p[0] for p in pairs]
        self.cs = [p[1] for p in pairs]

    def quantile(self, q):
        i = bisect.bisect_left(self.cs, q)
        if i <= 0:
            return self.xs[0]
        if i >= len(self.cs):
            return self.xs[-1]
        c0, c1 = self.cs[i - 1], self.cs[i]
        if c1 == c0:
            return self.xs[i]
        return self.xs[i - 1] + (self.xs[i] - self.xs[i - 1]) * (q - c0) / (c1 - c0)


def load_table(path):
    xs, cs = [], []
    with open(path) as f:
        for line in f:
            if line.startswith("#") or not line.strip():
                continue
            a, b = line.split()[:2]
            xs.append(float(a))
            cs.append(float(b))
    return TableCDF(xs, cs)


class FunctionCDF(object):
    def __init__(self, cdf, lo, hi):
        self.cdf, self.lo, self.hi = cdf, lo, hi

    def quantile(self, q):
        lo, hi = self.lo, self.hi
        for _ in range(80):
            mid = 0.5 * (lo + hi)
            if self.cdf(mid) < q:
                lo = mid
            else:
                hi = mid
        return 0.5 * (lo + hi)


def z_scores(replicas, reference, bins=8):
    """replicas: list of lists of samples.  Returns (max |z|, per-bin details)."""
    edges = [reference.quantile(k / bins) for k in range(1, bins)]
    R = len(replicas)
    freqs = []
    n_total = 0
    for samples in replicas:
        counts = [0] * bins
        for x in samples:
            counts[bisect.bisect_right(edges, x)] += 1
        n = max(1, len(samples))
        n_total += len(samples)
        freqs.append([c / n for c in counts])
    p = 1.0 / bins
    details = []
    worst = 0.0
    for k in range(bins):
        col = [f[k] for f in freqs]
        mean = sum(col) / R
        var = sum((x - mean) ** 2 for x in col) / max(1, R - 1)
        se = max(math.sqrt(var / R), math.sqrt(p * (1 - p) / max(1, n_total)))
        z = (mean - p) / se
        worst = max(worst, abs(z))
        details.append({"bin": k, "mean_frequency": mean, "expected": p, "z": z})
    return worst, details, edges
