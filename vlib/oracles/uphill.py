"""Cumulative uphill energy E(x) = integral_0^x max(0, dU/dx') dx' along a straight axis-parallel path of the active
unit (the separation component along the direction of motion decreases: s_d(x) = s_d - x), exact by monotone pieces:
E is a finite sum of max(0, U(end) - U(start)) over the pieces between turning points of U along the path."""
import math


def radial_turning_points(s_d, rho2, r_min):
    """Values of x >= 0 at which U(r(x)) can change its sense of variation: closest approach and |r| = r_min."""
    pts = []
    if s_d > 0.0:
        pts.append(s_d)
    if r_min is not None and r_min * r_min > rho2:
        h = math.sqrt(r_min * r_min - rho2)
        for x in (s_d - h, s_d + h):
            if x > 0.0:
                pts.append(x)
    return sorted(set(pts))


def radial_uphill(u_of_r, s_d, rho2, x, r_min=None):
    """E(x) for a radial potential u_of_r (callable on r >= 0, may be given r = inf)."""
    def r_at(t):
        if math.isinf(t):
            return math.inf
        return math.sqrt(rho2 + (s_d - t) ** 2)
    cuts = [0.0] + [p for p in radial_turning_points(s_d, rho2, r_min) if p < x] + [x]
    total = 0.0
    prev = u_of_r(r_at(cuts[0]))
    for c in cuts[1:]:
        cur = u_of_r(r_at(c))
        if cur > prev:
            total += cur - prev
        prev = cur
    return total


def periodic_coulomb_uphill(kc, s_d, rho2, L, x):
    """E(x) for U = kc / |nearest image of (s - x e_d)| in a cubic box of side L (rho2 = squared transverse part).

    The path is cut at every multiple of L/2 of the moving coordinate; whole periods are counted analytically."""
    half = L / 2.0

    def u_at_coord(c):
        # c is the unwrapped moving coordinate s_d - t
        y = math.fmod(c, L)
        if y > half:
            y -= L
        elif y < -half:
            y += L
        r2 = rho2 + y * y
        if r2 == 0.0:
            return math.copysign(math.inf, kc)
        return kc / math.sqrt(r2)

    if rho2 == 0.0:
        per_period = math.inf
    else:
        per_period = abs(kc / math.sqrt(rho2) - kc / math.sqrt(rho2 + half * half))
    if math.isinf(x):
        return math.inf
    n_full = math.floor(x / L)
    rest = x - n_full * L
    total = n_full * per_period if n_full > 0 else 0.0
    c0 = s_d
    c1 = s_d - rest
    # multiples of L/2 strictly between c1 and c0
    m_hi = math.ceil(c0 / half) - 1
    m_lo = math.floor(c1 / half) + 1
    cuts = [c0] + [m * half for m in range(m_hi, m_lo - 1, -1) if c1 < m * half < c0] + [c1]
    prev = u_at_coord(cuts[0])
    for c in cuts[1:]:
        cur = u_at_coord(c)
        if cur > prev:
            total += cur - prev
        prev = cur
    return total
