"""C09 - history property decided by the monitor (vlib/monitor.py) on instrumented runs of shipped and generated
configurations (vlib/configs.py, vlib/engine.py)."""
from ..configs import config_case
from ..runner import Check
from ._history import run_history

PROPERTY = "C09"
RULE = 'Same generator as C07. Oracle immediately before every get_succeeding_event after the first commit: per interaction-type tagger the multiset of pending in-state identifier tuples (activator return values of pushed-and-not-trashed handlers) equals tagger.yield_identifiers_send_event_time(fresh active state) as ordered tuples; other activated taggers: equal counts; never more running handlers than owned; TagActivatorError is a violation. Non-trivial: history with >=1 active-unit change and >=10 observations; distinct by (config, edits, seed, budget).'
ASSUMPTIONS = ["configurations are the runnable shipped .ini files verbatim, or shipped files with parameter edits "
               "only (particle number with number_event_handlers scaled, box, beta, chain/sampling times, grids, "
               "scheduler, speed, initial direction); generated wirings are limited to the families G4-G7 derived from "
               "shipped files (DESIGN.md 8.5) and to a second sampling tagger copied from the shipped one",
               "observation by wrapping instance attributes of state handler, scheduler, activator, input-output "
               "handler and event handlers; private reads: Mediator._state_handler/_scheduler/_activator/"
               "_input_output_handler, Activator._taggers/_internal_states"]
NT = lambda m: m.stats['active_unit_changes'] >= 1 and m.stats['pending_observations'] >= 10
KW = {}


def body(rec, c):
    run_history(rec, PROPERTY, c, NT)


CHECKS = [Check("history", body, lambda: {"c": config_case(**KW)}, quick=10, thorough=160, quick_shards=16,
                thorough_shards=16, shrink_quick=False)]

from . import C09_activator  # noqa: E402  (direct part: the tag activator against a model of its documented semantics)
CHECKS = CHECKS + C09_activator.CHECKS
RULE += (" Sub-check activator_model (no run): generated wirings of 3-7 taggers with arbitrary create/trash/activate/"
         "deactivate lists on the real TagActivator and Tagger classes (stub in-state generators and handlers), 4-30 "
         "legs; oracle = model of the documented semantics (pools of running / not-running handlers, trash then switch "
         "then create, TagActivatorError exactly when a pool is exhausted). Non-trivial: a history with a deactivated "
         "tagger.")
