"""C05 (handler part) - global balance of the lifted flow as the composite-object handlers fill the lifting scheme.

The lifting classes balance the flow only if every activation of the same factor presents the units in the same order
(the offset of the active unit's stretch is the sum of the positive derivatives inserted before it).  That order is
chosen by `_fill_lifting` of the two-composite-object handlers.  This check holds one configuration of two molecules
(two or three point masses each) fixed, makes each of the point masses the active one in turn (after the candidate time has been computed the
harness puts its in-state branches back to the common positions, so that all four activations lift at the same
configuration; the confirmation draw is scripted to 0), sweeps the lifting scheme's uniform draw
over a fine grid and bisects the break points, and compares, for every point mass k with negative factor derivative,

        sum over active units a of  max(q_a, 0) * P(a lifts to k)    with    |q_k|

where the factor derivatives q come from the independent Ewald oracle (vlib/oracles/ewald.py)."""
import math

from hypothesis import strategies as st

from .. import gen
from ..runner import Check
from ..scripted_random import Scripted, bisect_steps
from .C04_handlers import make_units, leaves, velocities, oracle_rates

PROPERTY = "C05"


@st.composite
def flow_case(draw):
    d = draw(st.integers(0, 2))
    centres = [[draw(gen.floats(0.1, 0.9)) for _ in range(3)] for _ in range(2)]
    near = draw(st.booleans())
    if near:     # second dipole close to the first: all four derivatives of comparable size
        centres[1] = [(centres[0][i] + draw(gen.floats(-0.25, 0.25))) % 1.0 for i in range(3)]
    sites = draw(st.sampled_from([2, 2, 3]))
    pos = []
    for cpos in centres:
        for _ in range(sites):
            e = [draw(gen.floats(-1.0, 1.0)) for _ in range(3)]
            n = math.hypot(*e) or 1.0
            half = 0.05 * draw(gen.floats(0.5, 1.5))
            pos.append([(cpos[i] + e[i] / n * half) % 1.0 for i in range(3)])
    for p in pos:
        for i in range(3):
            if not 0.0 <= p[i] < 1.0:
                p[i] = 0.0
    if sites == 2:
        charges = draw(st.sampled_from([[1.0, -1.0, 1.0, -1.0], [1.0, -1.0, -1.0, 1.0], [2.0, -1.0, 1.0, -0.5]]))
    else:
        charges = draw(st.sampled_from([[0.41, -0.82, 0.41, 0.41, -0.82, 0.41], [1.0, -2.0, 1.0, -1.0, 2.0, -1.0],
                                        [1.0, 1.0, -1.0, -1.0, 0.5, 1.0]]))
    return {"direction": d, "positions": pos, "sites": sites, "charges": charges,
            "lifting": draw(st.sampled_from(["inside_first", "outside_first", "ratio"]))}


def body_flow(rec, **c):
    import jellyfysh.setting as setting
    from jellyfysh.setting import hypercubic_setting
    from .C03 import ensure_ewald
    ensure_ewald()
    setting.reset()
    hypercubic_setting.HypercubicSetting(beta=1.0, dimension=3, system_length=1.0)
    setting.set_number_of_root_nodes(2)
    n_sites = c.get("sites", 2)
    setting.set_number_of_nodes_per_root_node(n_sites)
    setting.set_number_of_node_levels(2)
    from jellyfysh.base.node import Node
    from jellyfysh.base.unit import Unit
    from jellyfysh.base.time import Time
    from jellyfysh.event_handler import two_composite_object_summed_bounding_potential_event_handler as mod_h
    from jellyfysh.lifting import lifting as mod_l, ratio_lifting as mod_r
    from jellyfysh.lifting.inside_first_lifting import InsideFirstLifting
    from jellyfysh.lifting.outside_first_lifting import OutsideFirstLifting
    from jellyfysh.lifting.ratio_lifting import RatioLifting
    from jellyfysh.potential.inverse_power_coulomb_bounding_potential import InversePowerCoulombBoundingPotential
    from jellyfysh.potential.merged_image_coulomb_potential import MergedImageCoulombPotential
    v = [0.0, 0.0, 0.0]
    v[c["direction"]] = 1.0
    n_units = 2 * n_sites
    ids = [(i // n_sites, i % n_sites) for i in range(n_units)]
    pos, ch = c["positions"], c["charges"]

    def build(active):
        """two composite objects as in-state branches, point mass `active` moving"""
        nodes = []
        for r in range(2):
            kids = []
            for s_ in range(n_sites):
                i = r * n_sites + s_
                kids.append(Node(Unit((r, s_), list(pos[i]), {"q": ch[i]}, list(v) if i == active else None,
                                      Time(0.0, 0.0) if i == active else None), weight=1.0 / n_sites))
            has_active = active // n_sites == r
            root = Node(Unit((r,), [sum(k.value.position[d_] for k in kids) / n_sites for d_ in range(3)], None,
                             [x / n_sites for x in v] if has_active else None,
                             Time(0.0, 0.0) if has_active else None), weight=1)
            for kid in kids:
                root.add_child(kid)
            nodes.append(root)
        return nodes
    # factor derivatives from the oracle: q_i = sum over the point masses j of the other molecule
    q = []
    for i in range(n_units):
        total = 0.0
        for j in range(n_units):
            if j // n_sites == i // n_sites:
                continue
            sep = setting.periodic_boundaries.separation_vector(list(pos[i]), list(pos[j]))
            if math.hypot(*sep) < 1e-6:
                rec.exclude("two point masses of different dipoles coincide")
                return
            total += oracle_rates(1.0, sep, c["direction"], ch[i] * ch[j], 1.0)[0]
        q.append(total)
    scale = sum(abs(x) for x in q)
    if not scale > 1e-3:
        # far-apart or symmetric dipoles: derivatives at the level of the lattice sum's noise (1e-11) say nothing
        rec.exclude("all derivatives (nearly) vanish")
        return
    floor = 1e-6 * scale
    inflow = [0.0] * n_units
    per_active = {}
    for a in range(n_units):
        if not q[a] > floor:
            continue
        lifting = {"inside_first": InsideFirstLifting, "outside_first": OutsideFirstLifting, "ratio": RatioLifting}[
            c["lifting"]]()
        handler = mod_h.TwoCompositeObjectSummedBoundingPotentialEventHandler(
            potential=MergedImageCoulombPotential(), bounding_potential=InversePowerCoulombBoundingPotential(),
            lifting=lifting, charge="q")

        def target_of(u, a=a, handler=handler):
            nodes = build(a)
            s_h = Scripted(expos=[0.3] * 4, uniforms=[0.0], strict=False)   # confirmation draw 0: always confirmed
            s_l = Scripted(uniforms=[u] * 2)
            s_r = Scripted(uniforms=[u] * 2)
            old = (mod_h.random, mod_l.random, mod_r.random)
            mod_h.random, mod_l.random, mod_r.random = s_h, s_l, s_r
            try:
                t = handler.send_event_time(nodes)
                if math.isinf(t.quotient):
                    return "never"
                # the in-state branches are the harness' own objects: put every point mass (and the roots) back to the
                # common configuration, so that all four activations lift at the same positions
                for node, original in zip(leaves(nodes), pos):
                    node.value.position[:] = original
                for root in nodes:
                    root.value.position[:] = [sum(k.value.position[d_] for k in root.children) / n_sites
                                              for d_ in range(3)]
                out = handler.send_out_state()
            finally:
                mod_h.random, mod_l.random, mod_r.random = old
            moving = [x[0] for x in velocities(out) if x[1] is not None]
            return tuple(moving[0]) if len(moving) == 1 else ("?", len(moving))
        grid = [k / 64.0 for k in range(64)] + [math.nextafter(1.0, 0.0)]
        values = [target_of(u) for u in grid]
        if "never" in values:
            rec.exclude("a unit with positive factor derivative has no candidate event")
            return
        dist = {}
        edges = [0.0]
        for (u0, v0), (u1, v1) in zip(zip(grid, values), zip(grid[1:], values[1:])):
            if v0 != v1:
                steps, _ = bisect_steps(target_of, u0, u1)
                for left, right, _, _ in steps:
                    edges.append(right)
        edges.append(1.0)
        edges = sorted(set(edges))
        for lo, hi in zip(edges, edges[1:]):
            mid = lo + (hi - lo) / 2.0
            tgt = values[min(range(len(grid)), key=lambda k: abs(grid[k] - mid))] if hi - lo > 1.0 / 32 else \
                target_of(mid)
            dist[tgt] = dist.get(tgt, 0.0) + (hi - lo)
        per_active[ids[a]] = {str(k): round(p, 6) for k, p in dist.items()}
        for tgt, p in dist.items():
            if tgt not in ids:
                rec.fail("handler-flow/no-single-target", "active %r: the out-state has moving units %r"
                         % (ids[a], tgt), c)
                return
            k = ids.index(tgt)
            if not q[k] < floor and p > 1e-9:
                rec.fail("handler-flow/lift-to-non-negative", "active %r lifts to %r whose factor derivative is %r"
                         % (ids[a], tgt, q[k]), c)
                return
            inflow[k] += q[a] * p
    worst = 0.0
    for k in range(n_units):
        if q[k] < 0.0:
            worst = max(worst, abs(inflow[k] + q[k]))
    positives = sum(1 for x in q if x > floor)
    # units below the floor were not activated: their (at most 4e-6 of the scale) flow is missing from the balance
    if worst > 1e-5 * scale:
        rec.fail("handler-flow/imbalance", "%s lifting filled by the two-composite-object handler: factor derivatives %r, "
                 "lifted inflow %r (should be the magnitudes of the negative ones); selection probabilities per active "
                 "unit %r" % (c["lifting"], [round(x, 9) for x in q], [round(x, 9) for x in inflow], per_active), c)
    rec.case("%d-site/%s/%d-positive" % (n_sites, c["lifting"], positives), (repr(sorted(c.items())),), positives >= 2,
             {"case": c, "derivatives": q, "inflow": inflow})


CHECKS = [Check("handler_flow", lambda rec, c=None, **kw: body_flow(rec, **(c if c is not None else kw)),
                lambda: {"c": flow_case()}, quick=60, thorough=600, quick_shards=8, thorough_shards=16)]


# ------------------------------------------------------------------------------------------------ three-body (bending)

@st.composite
def bending_flow_case(draw):
    phi = draw(gen.floats(0.6, 2.9))
    r1, r2 = draw(gen.floats(0.8, 1.2)), draw(gen.floats(0.8, 1.2))
    angles = [draw(gen.floats(0.0, 6.28)) for _ in range(3)]
    return {"phi": phi, "r1": r1, "r2": r2, "angles": angles, "direction": draw(st.integers(0, 2)),
            "phi0": draw(gen.floats(1.2, 2.4)), "k": draw(st.sampled_from([1.0, 75.9, 10.0])),
            "lifting": draw(st.sampled_from(["inside_first", "outside_first", "ratio"]))}


def body_flow_bending(rec, **c):
    import jellyfysh.setting as setting
    from jellyfysh.setting import hypercubic_setting
    from jellyfysh.base.node import Node
    from jellyfysh.base.unit import Unit
    from jellyfysh.base.time import Time
    from ..oracles import energies
    setting.reset()
    hypercubic_setting.HypercubicSetting(beta=1.0, dimension=3, system_length=10.0)
    setting.set_number_of_root_nodes(1)
    setting.set_number_of_nodes_per_root_node(3)
    setting.set_number_of_node_levels(2)
    from jellyfysh.event_handler import fixed_separations_event_handler_with_piecewise_constant_bounding_potential \
        as mod_h
    from jellyfysh.lifting import lifting as mod_l, ratio_lifting as mod_r
    from jellyfysh.lifting.inside_first_lifting import InsideFirstLifting
    from jellyfysh.lifting.outside_first_lifting import OutsideFirstLifting
    from jellyfysh.lifting.ratio_lifting import RatioLifting
    from jellyfysh.potential.bending_potential import BendingPotential
    # the molecule: unit 1 in the middle (as in the shipped water factor file: separations r_0 - r_1 and r_2 - r_1)
    a = [c["r1"], 0.0, 0.0]
    b = [c["r2"] * math.cos(c["phi"]), c["r2"] * math.sin(c["phi"]), 0.0]

    def rot(vec):
        x, y, z = vec
        c0, s0 = math.cos(c["angles"][0]), math.sin(c["angles"][0])
        x, y = c0 * x - s0 * y, s0 * x + c0 * y
        c1, s1 = math.cos(c["angles"][1]), math.sin(c["angles"][1])
        y, z = c1 * y - s1 * z, s1 * y + c1 * z
        c2, s2 = math.cos(c["angles"][2]), math.sin(c["angles"][2])
        x, z = c2 * x - s2 * z, s2 * x + c2 * z
        return [x, y, z]
    centre = [5.0, 5.0, 5.0]
    pos = [[centre[i] + rot(a)[i] for i in range(3)], list(centre), [centre[i] + rot(b)[i] for i in range(3)]]
    v = [0.0, 0.0, 0.0]
    v[c["direction"]] = 1.0
    h = 1e-6

    def energy(p):
        return energies.bending(c["k"], c["phi0"], p[0], p[1], p[2])
    q = []
    for i in range(3):
        plus = [list(x) for x in pos]
        minus = [list(x) for x in pos]
        plus[i][c["direction"]] += h
        minus[i][c["direction"]] -= h
        q.append((energy(plus) - energy(minus)) / (2 * h))
    scale = sum(abs(x) for x in q)
    if not scale > 1e-6 * c["k"]:
        rec.exclude("bending derivatives vanish (equilibrium angle or motion in the null direction)")
        return
    floor = 1e-5 * scale
    inflow = [0.0] * 3
    per_active = {}
    for act in range(3):
        if not q[act] > floor:
            continue
        lifting = {"inside_first": InsideFirstLifting, "outside_first": OutsideFirstLifting, "ratio": RatioLifting}[
            c["lifting"]]()
        handler = mod_h.FixedSeparationsEventHandlerWithPiecewiseConstantBoundingPotential(
            potential=BendingPotential(equilibrium_angle=c["phi0"], prefactor=c["k"]), lifting=lifting,
            offset=10.0 + 4.0 * scale, max_displacement=0.1, separations=[1, 0, 1, 2])

        def branches():
            out = []
            for i in range(3):
                leaf = Node(Unit((0, i), list(pos[i]), None, list(v) if i == act else None,
                                 Time(0.0, 0.0) if i == act else None), weight=1.0 / 3.0)
                root = Node(Unit((0,), [sum(p[d] for p in pos) / 3.0 for d in range(3)], None,
                                 [x / 3.0 for x in v], Time(0.0, 0.0)), weight=1)
                root.add_child(leaf)
                out.append(root)
            return out

        def target_of(u, act=act, handler=handler):
            nodes = branches()
            s_h = Scripted(expos=[1e-3], uniforms=[0.0], strict=False)
            s_l = Scripted(uniforms=[u] * 2)
            s_r = Scripted(uniforms=[u] * 2)
            old = (mod_h.random, mod_l.random, mod_r.random)
            mod_h.random, mod_l.random, mod_r.random = s_h, s_l, s_r
            try:
                handler.send_event_time(nodes)
                for i, root in enumerate(nodes):
                    root.children[0].value.position[:] = pos[i]
                out = handler.send_out_state()
            finally:
                mod_h.random, mod_l.random, mod_r.random = old
            moving = [leaf.value.identifier for root in out for leaf in root.children if leaf.value.velocity is not None]
            return tuple(moving[0]) if len(moving) == 1 else ("?", len(moving))
        grid = [k / 64.0 for k in range(64)] + [math.nextafter(1.0, 0.0)]
        values = [target_of(u) for u in grid]
        edges = [0.0]
        for (u0, v0), (u1, v1) in zip(zip(grid, values), zip(grid[1:], values[1:])):
            if v0 != v1:
                steps, _ = bisect_steps(target_of, u0, u1)
                for left, right, _, _ in steps:
                    edges.append(right)
        edges.append(1.0)
        edges = sorted(set(edges))
        dist = {}
        for lo, hi in zip(edges, edges[1:]):
            tgt = target_of(lo + (hi - lo) / 2.0)
            dist[tgt] = dist.get(tgt, 0.0) + (hi - lo)
        per_active[act] = {str(k): round(p, 6) for k, p in dist.items()}
        for tgt, p in dist.items():
            if tgt not in [(0, 0), (0, 1), (0, 2)]:
                rec.fail("handler-flow/no-single-target", "bending handler, active %d: moving units %r" % (act, tgt), c)
                return
            k = tgt[1]
            if not q[k] < floor and p > 1e-9:
                rec.fail("handler-flow/lift-to-non-negative", "bending handler: active %d lifts to %d whose derivative "
                         "is %r" % (act, k, q[k]), c)
                return
            inflow[k] += q[act] * p
    worst = max([abs(inflow[k] + q[k]) for k in range(3) if q[k] < 0.0] or [0.0])
    positives = sum(1 for x in q if x > floor)
    if worst > 1e-4 * scale:
        rec.fail("handler-flow/imbalance-bending", "%s lifting filled by the three-body handler: derivatives %r, lifted "
                 "inflow %r; selection probabilities %r" % (c["lifting"], [round(x, 9) for x in q],
                                                            [round(x, 9) for x in inflow], per_active), c)
    rec.case("bending/%s/%d-positive" % (c["lifting"], positives), (repr(sorted(c.items())),), positives >= 2,
             {"case": c, "derivatives": q, "inflow": inflow})


CHECKS.append(Check("handler_flow_bending",
                    lambda rec, c=None, **kw: body_flow_bending(rec, **(c if c is not None else kw)),
                    lambda: {"c": bending_flow_case()}, quick=60, thorough=600, quick_shards=4, thorough_shards=16))
