"""C04 (b): a proposed event is confirmed with probability exactly max(0, true rate)/bounding rate, an unconfirmed
event leaves all velocities unchanged.  Real handlers under scripted randomness; the break point of "velocity handed
over" in the confirmation draw is compared with rates recomputed by independent oracles at the time-sliced separation."""
import math

from hypothesis import strategies as st

from .. import gen
from ..build import HarnessError
from ..oracles import energies
from ..runner import Check
from ..scripted_random import Scripted
from .C02 import init_cubic


def make_units(dim, positions, charges, active, velocity, ts, two_level=False):
    """Leaf cnodes (1-level) or two composite objects (2-level, two leaves each) as in-state branches."""
    from jellyfysh.base.node import Node
    from jellyfysh.base.unit import Unit
    from jellyfysh.base.time import Time
    nodes = []
    if not two_level:
        for i, (p, c) in enumerate(zip(positions, charges)):
            u = Unit((i,), list(p), {"q": c}, list(velocity) if i == active else None,
                     Time(*ts) if i == active else None)
            nodes.append(Node(u, weight=1))
        return nodes
    k = 0
    for r in range(2):
        kids = []
        for ch in range(2):
            is_active = (k == active)
            kids.append(Node(Unit((r, ch), list(positions[k]), {"q": charges[k]}, list(velocity) if is_active else None,
                                  Time(*ts) if is_active else None), weight=0.5))
            k += 1
        rp = [(a + b) / 2 for a, b in zip(kids[0].value.position, kids[1].value.position)]
        has_active = any(kid.value.velocity is not None for kid in kids)
        root = Node(Unit((r,), rp, None, [x * 0.5 for x in velocity] if has_active else None,
                         Time(*ts) if has_active else None), weight=1)
        for kid in kids:
            root.add_child(kid)
        nodes.append(root)
    return nodes


def leaves(nodes):
    out = []
    for n in nodes:
        if n.children:
            out.extend(n.children)
        else:
            out.append(n)
    return out


def velocities(state):
    return [(l.value.identifier, None if l.value.velocity is None else tuple(l.value.velocity),
             None if l.value.time_stamp is None else (l.value.time_stamp.quotient, l.value.time_stamp.remainder))
            for l in leaves(state)]


@st.composite
def pair_case(draw):
    L = draw(st.sampled_from([1.0, 1.0, 2.5]))
    d = draw(st.integers(0, 2))
    pos = [[draw(gen.floats(0.0, math.nextafter(L, 0.0))) for _ in range(3)] for _ in range(2)]
    kind = draw(st.sampled_from(["any", "any", "behind_image", "close", "edge_mid", "edge_mid"]))
    if kind == "edge_mid":
        # ratios q_true/q_bound close to 1 live where the component along the motion is small and the other two are
        # close to half a box length
        pos[1] = list(pos[0])
        e = draw(st.sampled_from([1e-3, 1e-2, 3e-2, 0.1]))
        pos[1][d] = (pos[0][d] + draw(st.sampled_from([0.3, 0.1, 0.03])) * L) % L
        for i in range(3):
            if i != d:
                pos[1][i] = (pos[0][i] + (0.5 - e * draw(gen.floats(0.0, 1.0))) * L) % L
    if kind == "behind_image":
        # target just behind the active unit's nearest image: q_true <= 0 < q_bound is possible here
        pos[1] = list(pos[0])
        pos[1][d] = (pos[0][d] + L / 2 - draw(gen.floats(0.0, 0.2)) * L) % L
    if kind == "close":
        pos[1] = [(pos[0][i] + draw(gen.floats(-0.1, 0.1)) * L) % L for i in range(3)]
    if math.dist(pos[0], pos[1]) < 1e-6 * L:
        pos[1][(d + 1) % 3] = (pos[1][(d + 1) % 3] + 0.3 * L) % L
    for p in pos:
        for i in range(3):
            if not 0.0 <= p[i] < L:
                p[i] = 0.0
    warm_up = None
    if draw(st.booleans()):
        warm_up = {"positions": [[draw(gen.floats(0.0, math.nextafter(L, 0.0))) for _ in range(3)] for _ in range(2)],
                   "charges": [draw(st.sampled_from([1.0, -1.0, 0.41])), draw(st.sampled_from([1.0, -1.0, -0.82]))]}
    # the handler instance that treats the pair may be a copy: taggers deep-copy their prototype, a resumed run works
    # with what dill restored from the dump
    restored = draw(st.sampled_from([None, None, None, "deepcopy", "dill", "dill"]))
    return {"L": L, "direction": d, "positions": pos, "warm_up": warm_up, "restored": restored,
            "charges": [draw(st.sampled_from([1.0, -1.0, 2.0])), draw(st.sampled_from([1.0, -1.0, 0.5]))],
            "active": draw(st.integers(0, 1)), "speed": draw(st.sampled_from([1.0, 0.5, 2.0])),
            "ts": [float(draw(st.integers(0, 50))), draw(gen.floats(0.0, 0.999))],
            "beta": draw(st.sampled_from([0.5, 1.0, 2.0])), "expo": draw(gen.log_uniform(1e-3, 5.0))}


def oracle_rates(L, sep, d, c1c2, speed):
    from ..oracles import ewald
    g = ewald.grad_psi(sep, L)
    q_true = -g[d] * c1c2 * speed
    q_bound = -energies.inverse_power_grad(1.5837, 1.0, c1c2, sep, d) * speed
    return q_true, q_bound


def body_pair(rec, **c):
    import jellyfysh.setting as setting
    from .C03 import ensure_ewald
    ensure_ewald()
    init_cubic(c["L"])
    # beta is part of the setting; re-initialise with the drawn value
    from jellyfysh.setting import hypercubic_setting
    setting.reset()
    hypercubic_setting.HypercubicSetting(beta=c["beta"], dimension=3, system_length=c["L"])
    setting.set_number_of_root_nodes(2)
    setting.set_number_of_nodes_per_root_node(1)
    setting.set_number_of_node_levels(1)
    from jellyfysh.event_handler import two_leaf_unit_bounding_potential_event_handler as mod_h
    from jellyfysh.event_handler.abstracts import event_handler_with_bounding_potential as mod_a
    from jellyfysh.potential.inverse_power_coulomb_bounding_potential import InversePowerCoulombBoundingPotential
    from jellyfysh.potential.merged_image_coulomb_potential import MergedImageCoulombPotential
    handler = mod_h.TwoLeafUnitBoundingPotentialEventHandler(
        potential=MergedImageCoulombPotential(), bounding_potential=InversePowerCoulombBoundingPotential(), charge="q")
    if c.get("restored") == "deepcopy":
        import copy
        handler = copy.deepcopy(handler)
    elif c.get("restored") == "dill":
        import dill
        handler = dill.loads(dill.dumps(handler))
    v = [0.0, 0.0, 0.0]
    v[c["direction"]] = c["speed"]
    # The tag activator keeps a pool of handler instances and hands each of them whatever pair comes next: before the
    # probed event the same instance treats another pair (other charges, other positions), as it would in a run.
    warm = c.get("warm_up")
    if warm:
        warm_nodes = make_units(3, warm["positions"], warm["charges"], c["active"], v, c["ts"])
        old_h, old_a = mod_h.random, mod_a.random
        mod_h.random, mod_a.random = Scripted(expos=[c["expo"]], strict=False), Scripted(uniforms=[0.5], strict=False)
        try:
            t_warm = handler.send_event_time(warm_nodes)
            if not math.isinf(t_warm.quotient):
                handler.send_out_state()
        finally:
            mod_h.random, mod_a.random = old_h, old_a

    def attempt(u):
        nodes = make_units(3, c["positions"], c["charges"], c["active"], v, c["ts"])
        s_time, s_conf = Scripted(expos=[c["expo"]]), Scripted(uniforms=[u])
        old_h, old_a = mod_h.random, mod_a.random
        mod_h.random, mod_a.random = s_time, s_conf
        try:
            t = handler.send_event_time(nodes)
            before = velocities(nodes)
            sep = setting.periodic_boundaries.separation_vector(nodes[c["active"]].value.position,
                                                                nodes[1 - c["active"]].value.position)
            out = handler.send_out_state()
        finally:
            mod_h.random, mod_a.random = old_h, old_a
        if s_time.leftover():
            raise HarnessError("send_event_time drew no exponential")
        return t, before, velocities(out), list(sep), s_conf.leftover() == 0

    t, before, after, sep, drew = attempt(0.5)
    if math.isinf(t.quotient):
        rec.case("infinite-candidate", (repr(c),), False, None)
        return
    c1c2 = c["charges"][0] * c["charges"][1]
    if any(math.isnan(x) for x in sep) or math.hypot(*sep) < 1e-9 * c["L"]:
        rec.exclude("candidate lands on the singularity (attractive head-on)")
        return
    q_true, q_bound = oracle_rates(c["L"], sep, c["direction"], c1c2, c["speed"])
    if not q_bound > 0.0:
        rec.fail("acceptance/candidate-without-bound-rate", "a candidate event at %r has non-positive bounding rate %r"
                 % (sep, q_bound), c)
        return
    threshold = max(0.0, q_true) / q_bound
    handed = lambda b, a: b != a
    # the lattice sum carries ~3e-13/L^2 absolute noise: the break point is probed at relative 1e-7 + absolute 1e-9
    probes = []
    lo, hi = threshold * (1 - 1e-7) - 1e-9, threshold * (1 + 1e-7) + 1e-9
    if lo > 0.0:
        probes.append((min(lo, 1.0), True))
        probes.append((0.0, True))
    if hi < 1.0:
        probes.append((hi, False))
        probes.append((1.0, False))
    for u, expect in probes:
        _, b, a, _, _ = attempt(u)
        got = handed(b, a)
        if got != expect:
            rec.fail("acceptance/threshold", "confirmation draw u=%r: velocity %s, but max(0,q_true)/q_bound = %r "
                     "(q_true=%r, q_bound=%r, separation %r)" % (u, "handed over" if got else "kept", threshold, q_true,
                                                                q_bound, sep), dict(c, u=u))
        if got:
            moving = [x for x in a if x[1] is not None]
            if len(moving) != 1 or moving[0][0] != (1 - c["active"],) or moving[0][1] != tuple(v):
                rec.fail("acceptance/hand-over-shape", "after a confirmed event the moving units are %r" % (moving,), c)
        elif b != a:
            rec.fail("acceptance/unconfirmed-changes-state", "unconfirmed event changed velocities/time stamps: %r -> %r"
                     % (b, a), dict(c, u=u))
    nt = 0.0 < threshold < 1.0
    rec.case("pair/%s%s" % ("interior" if nt else ("zero" if threshold <= 0 else "one"), ("/reused-handler" if warm else "") + ("/%s-copy" % c["restored"] if c.get("restored") else "")),
             (repr(sorted(c.items())),), nt,
             {"case": c, "threshold": threshold, "q_true": q_true, "q_bound": q_bound})


# ------------------------------------------------------------------------------------------------ composite (summed bound)

@st.composite
def composite_case(draw):
    L = 1.0
    d = draw(st.integers(0, 2))
    centres = [[draw(gen.floats(0.0, 0.999)) for _ in range(3)] for _ in range(2)]
    pos = []
    for cpos in centres:
        e = [draw(gen.floats(-1.0, 1.0)) for _ in range(3)]
        n = math.hypot(*e) or 1.0
        half = 0.05 * draw(gen.floats(0.5, 1.5))
        pos.append([(cpos[i] + e[i] / n * half) % L for i in range(3)])
        pos.append([(cpos[i] - e[i] / n * half) % L for i in range(3)])
    for p in pos:
        for i in range(3):
            if not 0.0 <= p[i] < L:
                p[i] = 0.0
    warm_up = None
    if draw(st.booleans()):
        warm_up = {"positions": [[draw(gen.floats(0.0, 0.999)) for _ in range(3)] for _ in range(4)],
                   "charges": draw(st.sampled_from([[2.0, -1.0, 1.0, -0.5], [-1.0, 1.0, 1.0, -1.0], [0.41, -0.82, 1.0, 1.0]]))}
    return {"direction": d, "positions": pos, "charges": [1.0, -1.0, 1.0, -1.0], "active": draw(st.integers(0, 3)),
            "warm_up": warm_up,
            "ts": [float(draw(st.integers(0, 9))), draw(gen.floats(0.0, 0.999))], "expo": draw(gen.log_uniform(1e-2, 3.0)),
            "lifting": draw(st.sampled_from(["inside_first", "outside_first", "ratio"])),
            "lift_u": draw(gen.floats(0.0, 1.0))}


def body_composite(rec, **c):
    import jellyfysh.setting as setting
    from jellyfysh.setting import hypercubic_setting
    from .C03 import ensure_ewald
    ewald = ensure_ewald()
    setting.reset()
    hypercubic_setting.HypercubicSetting(beta=1.0, dimension=3, system_length=1.0)
    setting.set_number_of_root_nodes(2)
    setting.set_number_of_nodes_per_root_node(2)
    setting.set_number_of_node_levels(2)
    from jellyfysh.event_handler import two_composite_object_summed_bounding_potential_event_handler as mod_h
    from jellyfysh.lifting import lifting as mod_l, ratio_lifting as mod_r
    from jellyfysh.lifting.inside_first_lifting import InsideFirstLifting
    from jellyfysh.lifting.outside_first_lifting import OutsideFirstLifting
    from jellyfysh.lifting.ratio_lifting import RatioLifting
    from jellyfysh.potential.inverse_power_coulomb_bounding_potential import InversePowerCoulombBoundingPotential
    from jellyfysh.potential.merged_image_coulomb_potential import MergedImageCoulombPotential
    lifting = {"inside_first": InsideFirstLifting, "outside_first": OutsideFirstLifting, "ratio": RatioLifting}[
        c["lifting"]]()
    handler = mod_h.TwoCompositeObjectSummedBoundingPotentialEventHandler(
        potential=MergedImageCoulombPotential(), bounding_potential=InversePowerCoulombBoundingPotential(),
        lifting=lifting, charge="q")
    v = [0.0, 0.0, 0.0]
    v[c["direction"]] = 1.0
    active_root = c["active"] // 2
    warm = c.get("warm_up")
    if warm:
        # the same (pooled) handler instance first treats another pair of composite objects, as in a run
        warm_nodes = make_units(3, warm["positions"], warm["charges"], c["active"], v, c["ts"], two_level=True)
        old = (mod_h.random, mod_l.random, mod_r.random)
        mod_h.random = Scripted(expos=[c["expo"]] * 2, uniforms=[0.5], strict=False)
        mod_l.random = Scripted(uniforms=[c["lift_u"]] * 2, strict=False)
        mod_r.random = Scripted(uniforms=[c["lift_u"]] * 2, strict=False)
        try:
            t_warm = handler.send_event_time(warm_nodes)
            if not math.isinf(t_warm.quotient) and not any(
                    math.isnan(x) for n_ in leaves(warm_nodes) for x in n_.value.position):
                handler.send_out_state()
        finally:
            mod_h.random, mod_l.random, mod_r.random = old

    def attempt(u):
        nodes = make_units(3, c["positions"], c["charges"], c["active"], v, c["ts"], two_level=True)
        s_h = Scripted(expos=[c["expo"]] * 2, uniforms=[u], strict=False)
        s_l = Scripted(uniforms=[c["lift_u"]] * 2)
        s_r = Scripted(uniforms=[c["lift_u"]] * 2)
        old = (mod_h.random, mod_l.random, mod_r.random)
        mod_h.random, mod_l.random, mod_r.random = s_h, s_l, s_r
        try:
            t = handler.send_event_time(nodes)
            before = velocities(nodes)
            lv = leaves(nodes)
            act = lv[c["active"]]
            targets = [x for x in lv if x.value.identifier[0] != active_root]
            seps = [setting.periodic_boundaries.separation_vector(act.value.position, x.value.position) for x in targets]
            tq = [x.value.charge["q"] for x in targets]
            out = handler.send_out_state()
        finally:
            mod_h.random, mod_l.random, mod_r.random = old
        return t, before, velocities(out), seps, tq

    t, before, after, seps, tq = attempt(0.5)
    if math.isinf(t.quotient):
        rec.case("infinite-candidate", (repr(c),), False, None)
        return
    qa = c["charges"][c["active"]]
    q_true_sum, q_bound_sum = 0.0, 0.0
    if any(any(math.isnan(x) for x in sep) or math.hypot(*sep) < 1e-9 for sep in seps):
        rec.exclude("candidate lands on the singularity (attractive head-on)")
        return
    for sep, q in zip(seps, tq):
        qt, qb = oracle_rates(1.0, sep, c["direction"], qa * q, 1.0)
        q_true_sum += qt
        q_bound_sum += max(0.0, qb)
    if not q_bound_sum > 0.0:
        rec.fail("acceptance/candidate-without-bound-rate", "candidate event with summed bounding rate %r" % q_bound_sum, c)
        return
    threshold = max(0.0, q_true_sum) / q_bound_sum
    if threshold > 1.0 + 1e-9:
        rec.fail("acceptance/summed-bound-exceeded", "summed true rate %r exceeds the summed bounding rate %r"
                 % (q_true_sum, q_bound_sum), c)
        return
    probes = []
    lo, hi = threshold * (1 - 1e-7) - 1e-9, threshold * (1 + 1e-7) + 1e-9
    if lo > 0.0:
        probes.append((min(lo, 1.0), True))
    if hi < 1.0:
        probes.append((hi, False))
    for u, expect in probes:
        _, b, a, _, _ = attempt(u)
        got = b != a
        if expect is not None and got != expect:
            rec.fail("acceptance/threshold-composite", "confirmation draw u=%r: velocity %s, but max(0,sum q_true)/sum "
                     "max(0,q_bound) = %r" % (u, "handed over" if got else "kept", threshold), dict(c, u=u))
        if got:
            moving = [x for x in a if x[1] is not None]
            if len(moving) != 1 or moving[0][1] != tuple(v):
                rec.fail("acceptance/hand-over-shape", "after a confirmed event the moving point masses are %r"
                         % (moving,), c)
            if moving and moving[0][0] == (active_root, c["active"] % 2):
                rec.fail("acceptance/hand-over-to-self", "confirmed event left the velocity with the active unit", c)
    nt = 0.0 < threshold < 1.0
    rec.case("composite/%s/%s" % (c["lifting"], "interior" if nt else "edge"), (repr(sorted(c.items())),), nt,
             {"case": c, "threshold": threshold})


def _unwrap(f):
    return lambda rec, c=None, **kw: f(rec, **(c if c is not None else kw))


def body_runs(rec, c):
    from ._history import run_history
    run_history(rec, "C04", c, lambda m: m.stats["commit/interaction"] >= 100 and
                m.stats["bounded_confirmations_possible"] >= 1)


def runs_strategy():
    from ..configs import config_case, SHIPPED
    bases = [b for b in SHIPPED if "cell_veto" not in b or "water" in b]
    return {"c": config_case(bases=bases)}


CHECKS = [
    Check("warnings_in_runs", body_runs, runs_strategy, quick=6, thorough=40, quick_shards=6, thorough_shards=16,
          shrink_quick=False),
    Check("acceptance_pair", _unwrap(body_pair), lambda: {"c": pair_case()}, quick=1500, thorough=12000, quick_shards=4),
    Check("acceptance_composite", _unwrap(body_composite), lambda: {"c": composite_case()}, quick=1000, thorough=8000,
          quick_shards=4),
]


# ------------------------------------------------------------------------------------------------ cell-bounding handler

@st.composite
def cell_bounding_case(draw):
    per = [draw(st.integers(4, 6)) for _ in range(3)]
    L = draw(st.sampled_from([1.0, 2.0]))
    active_cell = [draw(st.integers(0, n - 1)) for n in per]
    # a target cell that is not nearby: offset with at least one component >= 2 (torus distance)
    off = [draw(st.integers(0, n - 1)) for n in per]
    axis = draw(st.integers(0, 2))
    off[axis] = draw(st.integers(2, per[axis] - 2))
    return {"per_side": per, "L": L, "active_cell": active_cell, "offset": off,
            "frac_a": [draw(gen.floats(0.05, 0.95)) for _ in range(3)],
            "frac_t": [draw(gen.floats(0.05, 0.95)) for _ in range(3)],
            "direction": draw(st.integers(0, 2)), "speed": draw(st.sampled_from([1.0, 0.5, 2.0])),
            "charges": [draw(st.sampled_from([1.0, -1.0, 2.0])), draw(st.sampled_from([1.0, -1.0, 0.5]))],
            "beta": draw(st.sampled_from([0.5, 1.0, 2.0])), "expo": draw(gen.log_uniform(1e-4, 3.0)),
            "ts": [float(draw(st.integers(0, 20))), draw(gen.floats(0.0, 0.999))]}


def body_cell_bounding(rec, **c):
    import contextlib
    import io
    import jellyfysh.setting as setting
    from jellyfysh.setting import hypercubic_setting
    from jellyfysh.activator.internal_state.cell_occupancy.cells.cuboid_periodic_cells import CuboidPeriodicCells
    from jellyfysh.base.node import Node
    from jellyfysh.base.unit import Unit
    from jellyfysh.base.time import Time
    from jellyfysh.event_handler import two_leaf_unit_cell_bounding_potential_event_handler as mod_h
    from jellyfysh.event_handler.abstracts import event_handler_with_bounding_potential as mod_a
    from jellyfysh.potential.cell_bounding_potential import CellBoundingPotential
    from jellyfysh.potential.inverse_power_potential import InversePowerPotential
    from .. import stubs
    from .C18 import bound_function
    setting.reset()
    hypercubic_setting.HypercubicSetting(beta=c["beta"], dimension=3, system_length=c["L"])
    setting.set_number_of_root_nodes(2)
    setting.set_number_of_nodes_per_root_node(1)
    setting.set_number_of_node_levels(1)
    per, L = c["per_side"], c["L"]
    cells = CuboidPeriodicCells(cells_per_side=list(per), neighbor_layers=1)
    pot = InversePowerPotential(power=1.0, prefactor=1.0)
    Estimator = stubs.make_estimator_class()
    # bounds 40x the generic function so that they dominate 1/r^2 for non-nearby cells of these grids
    big = lambda lo, hi, d: tuple(40.0 * x for x in bound_function(lo, hi, d))
    handler = mod_h.TwoLeafUnitCellBoundingPotentialEventHandler(
        potential=pot, bounding_potential=CellBoundingPotential(estimator=Estimator(pot, big)), charge="q")
    with contextlib.redirect_stdout(io.StringIO()):
        handler.initialize(cells)
    by_id = {cell.identifier: cell for cell in cells.yield_cells()}
    acell = by_id[tuple(c["active_cell"])]
    tcell = by_id[tuple((c["active_cell"][i] + c["offset"][i]) % per[i] for i in range(3))]
    if tcell in cells.nearby_cells(acell):
        rec.exclude("target cell is nearby")
        return
    apos = [acell.cell_min[i] + (acell.cell_max[i] - acell.cell_min[i]) * c["frac_a"][i] for i in range(3)]
    tpos = [tcell.cell_min[i] + (tcell.cell_max[i] - tcell.cell_min[i]) * c["frac_t"][i] for i in range(3)]
    d, speed = c["direction"], c["speed"]
    v = [0.0, 0.0, 0.0]
    v[d] = speed
    qa, qt = c["charges"]
    zero = cells.zero_cell
    rel = by_id[tuple(c["offset"])]
    lo = tuple(rel.cell_min[i] - zero.cell_max[i] for i in range(3))
    hi = tuple(rel.cell_max[i] - zero.cell_min[i] for i in range(3))
    up, low = big(lo, hi, d)
    cp = qa * qt
    rate = up * cp if cp > 0 else low * cp      # bounding event rate per unit speed

    def attempt(u):
        nodes = [Node(Unit((0,), list(apos), {"q": qa}, list(v), Time(*c["ts"])), weight=1),
                 Node(Unit((1,), list(tpos), {"q": qt}, None, None), weight=1)]
        s_h, s_a = Scripted(expos=[c["expo"]]), Scripted(uniforms=[u], strict=False)
        old = (mod_h.random, mod_a.random)
        mod_h.random, mod_a.random = s_h, s_a
        try:
            t = handler.send_event_time(nodes)
            sep = setting.periodic_boundaries.separation_vector(nodes[0].value.position, nodes[1].value.position)
            still_in_cell = not math.isnan(nodes[0].value.position[d]) and cells.position_to_cell(
                list(nodes[0].value.position)) is acell
            out = handler.send_out_state()
        finally:
            mod_h.random, mod_a.random = old
        return t, list(sep), out, nodes, still_in_cell

    t, sep, out, nodes, inside = attempt(0.5)
    if rate <= 0.0:
        if not math.isinf(t.quotient):
            rec.fail("cell-bounding/rate-not-positive", "bounding rate %r <= 0 but a finite candidate %r" % (rate, t), c)
        rec.case("cell-bounding/no-rate", (repr(sorted(c.items())),), False, None)
        return
    want = (c["expo"] / c["beta"]) / (rate * speed)
    got = (t.quotient - c["ts"][0]) + (t.remainder - c["ts"][1])
    if abs(got - want) > 1e-9 * want + 1e-12:
        rec.fail("cell-bounding/candidate-time", "time displacement %r, expected e/(beta*B*c1c2*speed) = %r (B=%r)"
                 % (got, want, up if cp > 0 else low), c)
    if not inside:
        if out is not None:
            rec.fail("cell-bounding/left-cell", "the active unit left its cell before the candidate time but the "
                     "handler returned an out-state", c)
        rec.case("cell-bounding/left-cell", (repr(sorted(c.items())),), False, None)
        return
    q_true = -energies.inverse_power_grad(1.0, 1.0, cp, sep, d) * speed
    thr = max(0.0, q_true) / (rate * speed)
    if thr > 1.0:
        rec.exclude("stub bound below the true rate (not a claim of the property)")
        return
    lo_u, hi_u = thr * (1 - 1e-9) - 1e-12, thr * (1 + 1e-9) + 1e-12
    for u, expect in ((lo_u, True), (hi_u, False)):
        if not 0.0 < u < 1.0:
            continue
        _, _, o, nd, _ = attempt(u)
        handed = nd[1].value.velocity is not None
        if handed != expect:
            rec.fail("cell-bounding/threshold", "confirmation draw u=%r: velocity %s, but q_true/q_bound = %r"
                     % (u, "handed over" if handed else "kept", thr), dict(c, u=u))
        if not handed and (nd[0].value.velocity != v or nd[1].value.time_stamp is not None):
            rec.fail("cell-bounding/unconfirmed-changes-state", "unconfirmed event changed the state", c)
    rec.case("cell-bounding/%s" % ("interior" if 0 < thr < 1 else "edge"), (repr(sorted(c.items())),), 0 < thr < 1,
             {"case": c, "threshold": thr, "rate": rate})


CHECKS.append(Check("acceptance_cell_bounding", _unwrap(body_cell_bounding), lambda: {"c": cell_bounding_case()},
                    quick=1000, thorough=8000, quick_shards=4))


# ------------------------------------------------------------------------------------------------ root mode (summed bound)

def make_root_mode_state(positions, charges, moving_root, velocity, ts, sliced=True):
    """Two composite objects with two leaves each; all leaves of `moving_root` (and the root itself) move."""
    from jellyfysh.base.node import Node
    from jellyfysh.base.unit import Unit
    from jellyfysh.base.time import Time
    nodes = []
    k = 0
    for r in range(2):
        moving = (r == moving_root)
        kids = []
        for ch in range(2):
            kids.append(Node(Unit((r, ch), list(positions[k]), {"q": charges[k]}, list(velocity) if moving else None,
                                  Time(*ts) if moving else None), weight=0.5))
            k += 1
        rp = [(a + b) / 2 for a, b in zip(kids[0].value.position, kids[1].value.position)]
        root = Node(Unit((r,), rp, None, list(velocity) if moving else None, Time(*ts) if moving else None), weight=1)
        for kid in kids:
            root.add_child(kid)
        nodes.append(root)
    return nodes


@st.composite
def root_mode_case(draw):
    c = draw(composite_case())
    c["moving_root"] = draw(st.integers(0, 1))
    c["expos"] = [draw(gen.log_uniform(1e-2, 3.0)) for _ in range(4)]
    return c


def body_root_mode(rec, **c):
    import jellyfysh.setting as setting
    from jellyfysh.setting import hypercubic_setting
    from .C03 import ensure_ewald
    ensure_ewald()
    setting.reset()
    hypercubic_setting.HypercubicSetting(beta=1.0, dimension=3, system_length=1.0)
    setting.set_number_of_root_nodes(2)
    setting.set_number_of_nodes_per_root_node(2)
    setting.set_number_of_node_levels(2)
    import jellyfysh.event_handler.root_unit_active_two_composite_object_summed_bounding_potential_event_handler as mod_h
    from jellyfysh.potential.inverse_power_coulomb_bounding_potential import InversePowerCoulombBoundingPotential
    from jellyfysh.potential.merged_image_coulomb_potential import MergedImageCoulombPotential
    bound = InversePowerCoulombBoundingPotential()
    handler = mod_h.RootUnitActiveTwoCompositeObjectSummedBoundingPotentialEventHandler(
        potential=MergedImageCoulombPotential(), bounding_potential=bound, charge="q")
    d = c["direction"]
    v = [0.0, 0.0, 0.0]
    v[d] = 1.0
    mr = c["moving_root"]

    def attempt(u):
        nodes = make_root_mode_state(c["positions"], c["charges"], mr, v, c["ts"])
        s_h = Scripted(expos=list(c["expos"]), uniforms=[u], strict=False)
        old = mod_h.random
        mod_h.random = s_h
        try:
            t, ids = handler.send_event_time(nodes)
            drew = 4 - len(s_h.expos)
            fresh = make_root_mode_state(c["positions"], c["charges"], mr, v, c["ts"])
            lv = leaves(nodes)
            local = [x for x in lv if x.value.identifier[0] == mr]
            target = [x for x in lv if x.value.identifier[0] != mr]
            pairs = [(setting.periodic_boundaries.separation_vector(a.value.position, b.value.position),
                      a.value.charge["q"] * b.value.charge["q"]) for a in local for b in target]
            out = handler.send_out_state(fresh)
        finally:
            mod_h.random = old
        return t, drew, pairs, velocities(out)

    t, drew, pairs, after = attempt(0.5)
    if drew != 4:
        rec.fail("root-mode/draw-count", "the candidate time of the root-mode handler consumed %d exponential draws, the "
                 "minimum over the 4 point-mass pairs needs one independent draw per pair" % drew, c)
        return
    if math.isinf(t.quotient):
        rec.case("root-mode/infinite-candidate", (repr(sorted(c.items())),), False, None)
        return
    # candidate time: minimum over the pairs of the bounding displacement for that pair's own draw (the displacement
    # routine itself is C02's subject; here the composition is checked)
    lv0 = leaves(make_root_mode_state(c["positions"], c["charges"], mr, v, c["ts"]))
    local0 = [x for x in lv0 if x.value.identifier[0] == mr]
    target0 = [x for x in lv0 if x.value.identifier[0] != mr]
    want = math.inf
    i = 0
    for a in local0:
        for b in target0:
            sep = setting.periodic_boundaries.separation_vector(a.value.position, b.value.position)
            want = min(want, bound.displacement(v, sep, a.value.charge["q"], b.value.charge["q"], c["expos"][i]))
            i += 1
    got = (t.quotient - c["ts"][0]) + (t.remainder - c["ts"][1])
    if abs(got - want) > 1e-9 * max(want, 1e-12) + 1e-13:
        rec.fail("root-mode/candidate-time", "candidate time displacement %r, minimum over the pairs of their bounding "
                 "displacements is %r" % (got, want), c)
    if any(any(math.isnan(x) for x in sep) or math.hypot(*sep) < 1e-9 for sep, _ in pairs):
        rec.exclude("candidate lands on the singularity (attractive head-on)")
        return
    qt = sum(oracle_rates(1.0, sep, d, cc, 1.0)[0] for sep, cc in pairs)
    qb = sum(max(0.0, oracle_rates(1.0, sep, d, cc, 1.0)[1]) for sep, cc in pairs)
    if not qb > 0.0:
        rec.fail("root-mode/candidate-without-bound-rate", "candidate with summed bounding rate %r" % qb, c)
        return
    thr = max(0.0, qt) / qb
    if thr > 1.0 + 1e-9:
        rec.fail("root-mode/summed-bound-exceeded", "summed true rate %r exceeds the summed bounding rate %r" % (qt, qb), c)
        return
    lo, hi = thr * (1 - 1e-7) - 1e-9, thr * (1 + 1e-7) + 1e-9
    for u, expect in ((lo, True), (hi, False)):
        if not 0.0 < u < 1.0:
            continue
        _, _, _, a = attempt(u)
        moving = sorted(x[0] for x in a if x[1] is not None)
        handed = moving == [(1 - mr, 0), (1 - mr, 1)]
        kept = moving == [(mr, 0), (mr, 1)]
        if not (handed or kept):
            rec.fail("root-mode/hand-over-shape", "after the event the moving point masses are %r" % (moving,), c)
        elif handed != expect:
            rec.fail("root-mode/threshold", "confirmation draw u=%r: velocity %s, but max(0,sum q_true)/sum max(0,q_bound) "
                     "= %r" % (u, "handed over" if handed else "kept", thr), dict(c, u=u))
    rec.case("root-mode/%s" % ("interior" if 0 < thr < 1 else "edge"), (repr(sorted(c.items())),), 0 < thr < 1,
             {"case": c, "threshold": thr})


CHECKS.append(Check("acceptance_root_mode", _unwrap(body_root_mode), lambda: {"c": root_mode_case()}, quick=600,
                    thorough=6000, quick_shards=4))
