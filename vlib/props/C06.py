"""C06 - scheduler always yields a live event with the smallest candidate time.

(a) Hypothesis rule-based state machine: HeapScheduler and ListScheduler driven together with a dictionary model.
(b) libFuzzer + ASan/UBSan target for heap.c with an in-target reference model (csrc/fuzz_heap.c)."""
import math
import os
import shutil
import subprocess
import tempfile

import hypothesis
from hypothesis import HealthCheck, Phase, settings, strategies as st
from hypothesis.stateful import RuleBasedStateMachine, invariant, precondition, rule, run_state_machine_as_test

from .. import build, gen
from ..build import HarnessError
from ..runner import Check, Violation, jsonable

PROPERTY = "C06"
RULE = ("(a) Hypothesis RuleBasedStateMachine over HeapScheduler + ListScheduler + dictionary model, up to 300 picklable "
        "handlers; rules: push (handler without live event; time = last returned + delta with delta from {0, 1 ulp of "
        "the remainder, same quotient, next quotient, 2^40, inf}), trash (live handler), get (+ trash of the returned "
        "handler as the mediator does), get on empty (SchedulerError expected), dill round trip of (schedulers, "
        "handlers), burn_counter (validity counter of a non-live handler preset to 2^32-k: the only white-box step), "
        "burst (70-300 pushes across the 64/128/256 reallocation sizes), drain (20-300 gets in a row, shrinking the heap below an earlier reallocation size). Oracle after every get: returned handler "
        "is live in the model, its time equals the model minimum as (quotient, remainder), heap and list agree. "
        "fork_twin: an unpickled copy of both schedulers is driven in lockstep with the live ones from then on and "
        "must return the same handler at every get, also where several live events share the minimal time. "
        "(b) libFuzzer bytes -> insert/root/delete_events/entry on the raw C heap built with ASan+UBSan, in-target "
        "array model. Non-trivial: a machine run with a get after a trash of a non-minimal entry, or crossing a "
        "reallocation, or containing a pickle round trip or the overflow branch; fuzz: inputs reaching a new "
        "coverage feature (libFuzzer corpus size); distinct by step sequence / corpus entry.")
ASSUMPTIONS = ["mediator protocol: at most one live event per handler, trash only live events, pushed times are not "
               "smaller than the last returned time", "burn_counter writes HeapScheduler._minimal_valid_counter "
               "(private) to reach the state 2^32 trashes would produce",
               "the fuzz target is compiled from the scratch copy's heap.c with clang -fsanitize=fuzzer,address,undefined"]


class Handler(object):
    """Small picklable stand-in for an event handler (module level so that dill can pickle it by reference)."""

    def __init__(self, index):
        self.index = index

    def __repr__(self):
        return "H%d" % self.index


def tkey(t):
    return (t.quotient, t.remainder)


class SchedulerMachine(RuleBasedStateMachine):
    def __init__(self):
        super().__init__()
        from jellyfysh.scheduler.heap_scheduler import HeapScheduler
        from jellyfysh.scheduler.list_scheduler import ListScheduler
        from jellyfysh.base.time import Time
        self.Time = Time
        self.heap = HeapScheduler()
        self.lst = ListScheduler()
        self.handlers = [Handler(i) for i in range(300)]
        self.model = {}          # index -> (q, r) of the live event
        self.last = (0.0, 0.0)   # last returned time (model)
        self.trace = []
        self.flags = set()
        self.heap_pushes = 0
        self.trashed_nonmin_since_get = False
        self.twin = None         # (heap, list, handlers) unpickled from a dump of the primary, driven in lockstep

    # ---------------------------------------------------------------------------------------------- helpers
    def _time(self, kind, frac, dq):
        q, r = self.last
        if kind == "same":
            return (q, r)
        if kind == "ulp":
            nr = math.nextafter(r, 2.0)
            return (q, nr) if nr < 1.0 else (q + 1.0, 0.0)
        if kind == "same_q":
            return (q, r + (gen.BELOW_ONE - r) * frac)
        if kind == "next_q":
            return (q + float(dq), frac * gen.BELOW_ONE)
        if kind == "far":
            return (q + 2.0 ** 40, frac * gen.BELOW_ONE)
        return (math.inf, math.inf)

    def _push(self, idx, t):
        h = self.handlers[idx]
        time = self.Time(t[0], t[1])
        self.heap.push_event(time, h)
        self.lst.push_event(time, h)
        if self.twin is not None:
            self.twin[0].push_event(self.Time(t[0], t[1]), self.twin[2][idx])
            self.twin[1].push_event(self.Time(t[0], t[1]), self.twin[2][idx])
        self.model[idx] = t
        if not math.isinf(t[0]):
            self.heap_pushes += 1
            if self.heap_pushes in (63, 64, 127, 128, 255, 256):
                self.flags.add("realloc")

    def _free(self, pick):
        free = [i for i in range(len(self.handlers)) if i not in self.model]
        return free[pick % len(free)] if free else None

    def _min(self):
        finite = [t for t in self.model.values() if not math.isinf(t[0])]
        return min(finite) if finite else None

    # ---------------------------------------------------------------------------------------------- rules
    @rule(pick=st.integers(0, 10 ** 6), small=st.booleans(),
          kind=st.sampled_from(["same", "ulp", "same_q", "same_q", "next_q", "next_q", "far", "inf"]),
          frac=st.floats(0.0, 1.0), dq=st.integers(1, 3))
    def push(self, pick, small, kind, frac, dq):
        idx = self._free(pick % 12 if small else pick)
        if idx is None:
            return
        t = self._time(kind, frac, dq)
        self.trace.append(("push", idx, t))
        self._push(idx, t)

    @precondition(lambda self: len(self.model) > 0)
    @rule(pick=st.integers(0, 10 ** 6))
    def trash(self, pick):
        live = sorted(self.model)
        idx = live[pick % len(live)]
        m = self._min()
        if m is not None and self.model[idx] != m:
            self.trashed_nonmin_since_get = True
        self._trash_idx(idx)

    def _trash_idx(self, idx):
        self.trace.append(("trash", idx))
        h = self.handlers[idx]
        self.heap.trash_event(h)
        self.lst.trash_event(h)
        if self.twin is not None:
            self.twin[0].trash_event(self.twin[2][idx])
            self.twin[1].trash_event(self.twin[2][idx])
        del self.model[idx]

    @precondition(lambda self: self.twin is None)
    @rule()
    def fork_twin(self):
        """A dump is loaded in another process and both runs go on: from here on the unpickled schedulers receive the
        same operations as the live ones and must return the same handlers - also where several events share the
        minimal time (same contents, same validity of trashed entries, same order)."""
        import dill
        self.trace.append(("fork_twin",))
        self.twin = dill.loads(dill.dumps((self.heap, self.lst, self.handlers)))
        self.flags.add("twin")

    @rule()
    def get(self):
        from jellyfysh.base.exceptions import SchedulerError
        m = self._min()
        self.trace.append(("get",))
        if m is None:
            try:
                h = self.heap.get_succeeding_event()
            except SchedulerError:
                pass
            else:
                raise Violation("stateful/heap-returns-on-empty", "heap scheduler returned %r although no finite live "
                                "event exists (live: %r)" % (h, self.model), {"trace": jsonable(self.trace)})
            if not self.model:
                try:
                    h = self.lst.get_succeeding_event()
                except SchedulerError:
                    pass
                else:
                    raise Violation("stateful/list-returns-on-empty", "list scheduler returned %r although it is empty"
                                    % h, {"trace": jsonable(self.trace)})
            # with only infinite events live the list scheduler may return one of them (allowed: never before a finite
            # one) and then regards the run as having reached time infinity; it is not asked in that state
            if self.twin is not None:
                try:
                    h = self.twin[0].get_succeeding_event()
                except SchedulerError:
                    pass
                else:
                    raise Violation("stateful/unpickled-heap-differs", "the unpickled heap scheduler returned %r where "
                                    "the original raised SchedulerError" % h, {"trace": jsonable(self.trace)})
            self.flags.add("get-empty")
            return
        h1 = self.heap.get_succeeding_event()
        h2 = self.lst.get_succeeding_event()
        for name, h in (("heap", h1), ("list", h2)):
            if h.index not in self.model:
                raise Violation("stateful/%s-returns-trashed" % name, "%s scheduler returned %r whose event was trashed "
                                "or never pushed" % (name, h), {"trace": jsonable(self.trace)})
            if self.model[h.index] != m:
                raise Violation("stateful/%s-not-minimal" % name, "%s scheduler returned %r with time %r, minimal live "
                                "time is %r" % (name, h, self.model[h.index], m), {"trace": jsonable(self.trace)})
        if self.trashed_nonmin_since_get:
            self.flags.add("get-after-nonmin-trash")
            self.trashed_nonmin_since_get = False
        if self.twin is not None:
            t1 = self.twin[0].get_succeeding_event()
            t2 = self.twin[1].get_succeeding_event()
            ties = sum(1 for t in self.model.values() if t == m)
            if ties >= 2:
                self.flags.add("twin-get-with-tie")
            for name, a, b in (("heap", h1, t1), ("list", h2, t2)):
                if a.index != b.index:
                    raise Violation("stateful/unpickled-%s-differs" % name, "after the same operations the unpickled "
                                    "%s scheduler returned %r, the original %r (%d live events share the minimal time)"
                                    % (name, b, a, ties), {"trace": jsonable(self.trace)})
        self.last = m
        # the mediator trashes the returned handler (it is always in its own trash list)
        for idx in {h1.index, h2.index}:
            h = self.handlers[idx]
            self.heap.trash_event(h)
            self.lst.trash_event(h)
            if self.twin is not None:
                self.twin[0].trash_event(self.twin[2][idx])
                self.twin[1].trash_event(self.twin[2][idx])
            del self.model[idx]

    @rule(keep_original=st.booleans())
    def pickle_roundtrip(self, keep_original):
        import dill
        self.trace.append(("pickle", keep_original))
        blob = dill.dumps((self.heap, self.lst, self.handlers))
        if keep_original:
            # a dump in a run: the pickled copy goes to disk, the run continues with the live objects, which pickling
            # must not have changed
            dill.loads(blob)
            self.flags.add("pickle-continue-original")
        else:
            self.heap, self.lst, self.handlers = dill.loads(blob)
        self.flags.add("pickle")

    @rule(pick=st.integers(0, 10 ** 6), k=st.integers(0, 3))
    def burn_counter(self, pick, k):
        idx = self._free(pick % 12)
        if idx is None:
            return
        self._burn(idx, k)

    def _burn(self, idx, k):
        self.trace.append(("burn", idx, k))
        # white-box: the state that 2^32-k trashes of this handler would have produced
        # (never lowered: lowering would revive stale entries, which no sequence of trashes can do)
        h = self.handlers[idx]
        self.heap._minimal_valid_counter[h] = max(self.heap._minimal_valid_counter.get(h, 0), 2 ** 32 - k)
        if self.twin is not None:
            th = self.twin[2][idx]
            self.twin[0]._minimal_valid_counter[th] = max(self.twin[0]._minimal_valid_counter.get(th, 0), 2 ** 32 - k)
        self.flags.add("overflow-preset")

    @rule(n=st.integers(70, 300), frac=st.floats(0.0, 1.0))
    def burst(self, n, frac):
        self.trace.append(("burst", n, frac))
        count = 0
        for i in range(len(self.handlers)):
            if count >= n:
                break
            if i in self.model:
                continue
            kind = ("same", "same_q", "next_q", "far")[i % 4]
            self._push(i, self._time(kind, (frac + i * 0.137) % 1.0, 1 + i % 3))
            count += 1

    @rule(n=st.integers(20, 300))
    def drain(self, n):
        """Many gets in a row (each followed by the mediator's trash of the returned handler): the heap shrinks again
        below an earlier reallocation size, stale entries reach the root and are purged."""
        for _ in range(n):
            if self._min() is None:
                break
            self.get()
        self.flags.add("drain")

    @invariant()
    def live_sets_agree(self):
        # cheap sanity of the harness model itself
        assert all(isinstance(t, tuple) for t in self.model.values())


def run_machines(rec, seed, n, tier, shard):
    steps = 120 if tier == "quick" else 400
    outcomes = []

    class Machine(SchedulerMachine):
        def teardown(self):
            nt = bool(self.flags & {"get-after-nonmin-trash", "realloc", "pickle", "overflow-preset"})
            label = "+".join(sorted(self.flags)) or "plain"
            rec.case(label, tuple(map(repr, self.trace)), nt,
                     {"steps": len(self.trace), "head": jsonable(self.trace[:12]), "flags": sorted(self.flags)})

    phases = [Phase.generate, Phase.shrink] if tier == "thorough" else [Phase.generate]
    try:
        from hypothesis.internal.conjecture import engine as _engine
        _engine.MAX_SHRINKING_SECONDS = 60
    except Exception:
        pass
    try:
        run_state_machine_as_test(
            hypothesis.seed(seed)(Machine),
            settings=settings(max_examples=n, stateful_step_count=steps, deadline=None, database=None,
                              report_multiple_bugs=False, suppress_health_check=list(HealthCheck), phases=phases,
                              print_blob=False, verbosity=hypothesis.Verbosity.quiet))
    except Violation:
        raise
    except Exception as exc:
        from ..runner import exception_signature
        sig = exception_signature(exc)
        if sig is None:
            raise
        raise Violation(sig, "%s: %s" % (type(exc).__name__, exc), {"note": "exception inside a scheduler call"})


def replay_machine(rec, args):
    """Re-execute a recorded step sequence without Hypothesis."""
    m = SchedulerMachine()
    for step in args["trace"]:
        op = step[0]
        if op == "push":
            m.trace.append(tuple(step))
            m._push(step[1], tuple(float(x) for x in step[2]))
        elif op == "trash":
            m._trash_idx(step[1])
        elif op == "fork_twin":
            m.fork_twin()
        elif op == "get":
            m.get()
        elif op == "pickle":
            m.pickle_roundtrip(bool(step[1]) if len(step) > 1 else False)
        elif op == "burn":
            m._burn(step[1], step[2])
        elif op == "burst":
            m.burst(step[1], step[2])
        # ("drain" is recorded as its individual gets)


# ------------------------------------------------------------------------------------------------------ libFuzzer

def fuzz(rec, seed, n, tier, shard):
    root = build.scratch_root()
    src = os.path.join(root, "jellyfysh", "scheduler", "heap_scheduler")
    here = os.path.dirname(os.path.dirname(os.path.dirname(os.path.abspath(__file__))))
    work = tempfile.mkdtemp(prefix="jffuzz_")
    try:
        exe = os.path.join(work, "fuzz_heap")
        cc = subprocess.run(["clang", "-g", "-O1", "-fsanitize=fuzzer,address,undefined",
                             "-fno-sanitize-recover=undefined", "-I", src,
                             os.path.join(here, "csrc", "fuzz_heap.c"), os.path.join(src, "heap.c"), "-o", exe],
                            capture_output=True, text=True)
        if cc.returncode != 0:
            raise HarnessError("building the fuzz target failed:\n%s" % cc.stderr[-3000:])
        corpus = os.path.join(work, "corpus")
        os.makedirs(corpus)
        if shard % 2 == 0:   # even shards start from the 3-file seed corpus, odd shards from an empty one
            for f in os.listdir(os.path.join(here, "csrc", "corpus")):
                shutil.copy(os.path.join(here, "csrc", "corpus", f), corpus)
        # -max_total_time only caps a campaign on a loaded machine (executions slow down as inputs grow); the number
        # of executions actually made is what the evidence reports
        run = subprocess.run([exe, "-runs=%d" % n, "-max_total_time=%d" % (120 if tier == "quick" else 480),
                              "-seed=%d" % (seed % (2 ** 31 - 1) + 1), "-max_len=256",
                              "-print_final_stats=1", "-artifact_prefix=%s/" % work, corpus],
                             capture_output=True, text=True, cwd=work)
        out = run.stderr
        executed = 0
        for line in out.splitlines():
            if line.startswith("stat::number_of_executed_units:"):
                executed = int(line.split(":")[-1])
        entries = [f for f in os.listdir(corpus)]
        rec.evaluations += executed
        rec.labels["fuzz-executions(%s corpus)" % ("seed" if shard % 2 == 0 else "empty")] += executed
        for f in entries:
            with open(os.path.join(corpus, f), "rb") as fh:
                data = fh.read()
            rec.nontrivial.add(data[:64] + bytes([len(data) % 256]))
        if entries:
            with open(os.path.join(corpus, sorted(entries)[0]), "rb") as fh:
                rec.samples.setdefault("fuzz-corpus-entry", []).append({"hex": fh.read(64).hex()})
        if run.returncode != 0:
            artifacts = [f for f in os.listdir(work) if f.startswith(("crash-", "leak-", "timeout-", "oom-"))]
            reason = [l for l in out.splitlines() if "ORACLE:" in l or "ERROR: AddressSanitizer" in l
                      or "runtime error:" in l or "ERROR: libFuzzer" in l]
            data = b""
            if artifacts:
                with open(os.path.join(work, artifacts[0]), "rb") as fh:
                    data = fh.read()
            import re
            first = reason[0] if reason else "exit %d" % run.returncode
            first = first.split("ORACLE:")[-1].strip() if "ORACLE:" in first else first.strip()
            first = re.sub(r"==\d+==", "", first)
            first = re.sub(r"0x[0-9a-f]+", "ADDR", first)
            first = re.sub(r" on address.*", "", first)
            sig = "fuzz/" + first.strip()[:90]
            raise Violation(sig, "heap.c under libFuzzer: %s" % ("; ".join(reason[:3]) or out[-500:]),
                            {"input_hex": data.hex(), "artifact": artifacts[0] if artifacts else None})
    finally:
        shutil.rmtree(work, ignore_errors=True)


def replay_fuzz(rec, args):
    root = build.scratch_root()
    src = os.path.join(root, "jellyfysh", "scheduler", "heap_scheduler")
    here = os.path.dirname(os.path.dirname(os.path.dirname(os.path.abspath(__file__))))
    work = tempfile.mkdtemp(prefix="jffuzz_")
    try:
        exe = os.path.join(work, "fuzz_heap")
        cc = subprocess.run(["clang", "-g", "-O1", "-fsanitize=fuzzer,address,undefined",
                             "-fno-sanitize-recover=undefined", "-I", src,
                             os.path.join(here, "csrc", "fuzz_heap.c"), os.path.join(src, "heap.c"), "-o", exe],
                            capture_output=True, text=True)
        if cc.returncode != 0:
            raise HarnessError("building the fuzz target failed:\n%s" % cc.stderr[-3000:])
        path = os.path.join(work, "input")
        with open(path, "wb") as fh:
            fh.write(bytes.fromhex(args["input_hex"]))
        run = subprocess.run([exe, path], capture_output=True, text=True, cwd=work)
        if run.returncode != 0:
            reason = [l for l in run.stderr.splitlines() if "ORACLE:" in l or "ERROR:" in l or "runtime error" in l]
            raise Violation("fuzz/replay", "; ".join(reason[:3]) or run.stderr[-400:], args)
    finally:
        shutil.rmtree(work, ignore_errors=True)


CHECKS = [
    Check("stateful", custom=run_machines, quick=70, thorough=150, quick_shards=8, thorough_shards=16,
          replay=replay_machine),
    Check("fuzz_heap", custom=fuzz, quick=12000, thorough=150000, quick_shards=8, thorough_shards=16,
          replay=replay_fuzz),
]
