"""C09 (direct part) - the tag activator's create / trash / activate / deactivate bookkeeping against a model.

Generated wirings (3-7 taggers with arbitrary create, trash, activate and deactivate lists; every tagger trashes itself,
as the mediator's protocol requires) are instantiated with the real TagActivator and real Tagger objects whose in-state
generator is a harness stub: it yields as many in-states as the harness wrote into the "active state" for that tag.  A
generated history commits, leg after leg, an event of some running handler and calls get_trashable_events and
get_event_handlers_to_run exactly as the mediator does.

Model (the documented semantics): a tagger owns a fixed pool of handlers, each either running or not; after an event of
tagger P all running handlers of the taggers in P's trash list are trashable (P's own handler among them) and stop
running; then P's activate list is activated, P's deactivate list deactivated; then every tagger in P's create list
that is activated starts one not-running handler per in-state it generates, in order; running out of handlers raises
TagActivatorError.  Hence the handlers running according to the activator are exactly the events pending in the
scheduler, which is what C09 (and the second sentence of C08) rely on."""
from hypothesis import strategies as st

from ..runner import Check

PROPERTY = "C09"


@st.composite
def wiring_case(draw):
    k = draw(st.integers(3, 7))
    tags = ["t%d" % i for i in range(k)]
    few = st.lists(st.sampled_from(tags), unique=True, max_size=2)
    some = st.lists(st.sampled_from(tags), unique=True, max_size=k)
    taggers = []
    for i, tag in enumerate(tags):
        # short trash lists let events stay pending over several legs; every tagger trashes itself
        trash = sorted(set(draw(few)) | {tag})
        create = sorted(set(draw(some)) | ({tag} if draw(st.booleans()) else set()))
        switching = draw(st.booleans())
        activate = sorted(draw(few)) if switching else []
        deactivate = sorted(draw(few)) if switching else []
        taggers.append({"tag": tag, "create": create, "trash": trash, "activate": activate, "deactivate": deactivate,
                        "handlers": draw(st.integers(1, 4))})
    # tagger 0 carries the start-of-run handler and gets the run going
    taggers[0]["handlers"] = 1
    taggers[0]["create"] = sorted(set(taggers[0]["create"]) | set(tags[1:1 + draw(st.integers(2, k - 1))]))
    taggers[0]["deactivate"] = [t for t in taggers[0]["deactivate"] if t != tags[0]]
    legs = []
    for _ in range(draw(st.integers(4, 30))):
        # "level" per tag: the number of in-states the tagger generates in this leg is min(level, free handlers), so
        # that histories go on; one leg in twelve asks a tagger for one handler more than it has free, on purpose
        legs.append({"pick": draw(st.integers(0, 10 ** 6)),
                     "level": {tag: draw(st.sampled_from([0, 1, 1, 2, 4])) for tag in tags},
                     "overflow": draw(st.sampled_from(tags)) if draw(st.integers(0, 11)) == 0 else None})
    return {"taggers": taggers, "start_want": 1, "legs": legs}


def make_classes():
    from jellyfysh.activator.tagger.tagger import Tagger
    from jellyfysh.event_handler.event_handler import EventHandler
    from jellyfysh.event_handler.abstracts import StartOfRunEventHandler

    class StubTagger(Tagger):
        """Real activate()/deactivate()/pool handling of the Tagger base class; the generator is the harness'."""

        def __init__(self, **kw):
            super().__init__(**kw)

        def yield_identifiers_send_event_time(self, state):
            for n in range(state[self.tag]):
                yield (self.tag, n)

    class Handler(EventHandler):
        def send_event_time(self, *a):
            raise NotImplementedError

        def send_out_state(self, *a):
            raise NotImplementedError

    class Start(StartOfRunEventHandler):
        def send_event_time(self, *a):
            raise NotImplementedError

        def send_out_state(self, *a):
            raise NotImplementedError
    return StubTagger, Handler, Start


def body_activator(rec, taggers, start_want, legs):
    from jellyfysh.activator.tag_activator import TagActivator
    from jellyfysh.base.exceptions import TagActivatorError
    import contextlib
    import io
    args = {"taggers": taggers, "start_want": start_want, "legs": legs}
    StubTagger, Handler, Start = make_classes()
    with contextlib.redirect_stdout(io.StringIO()):
        objs = []
        for i, t in enumerate(taggers):
            objs.append(StubTagger(create=list(t["create"]), trash=list(t["trash"]),
                                   event_handler=(Start() if i == 0 else Handler()),
                                   number_event_handlers=t["handlers"], tag=t["tag"], activate=list(t["activate"]),
                                   deactivate=list(t["deactivate"])))
        activator = TagActivator(taggers=objs, internal_states=[])
        activator.initialize(None)
    by_tag = {t["tag"]: t for t in taggers}
    obj_by_tag = {o.tag: o for o in objs}
    owner = {}
    for o in objs:
        for h in o.get_event_handlers():
            owner[id(h)] = o.tag
    pool = {t["tag"]: t["handlers"] for t in taggers}
    # ---- model
    running = {tag: [] for tag in by_tag}          # handlers the scheduler holds an event of
    active = {tag: True for tag in by_tag}
    flags = set()

    def switch(tag):
        for x in by_tag[tag]["activate"]:
            active[x] = True
        for x in by_tag[tag]["deactivate"]:
            active[x] = False
            if running[x]:
                flags.add("deactivated-while-running")

    def check_started(result, creates, want, leg):
        """`result` of get_event_handlers_to_run against the model; returns False if the case ends here."""
        got = {}
        for h, ident in result.items():
            tag = owner.get(id(h))
            if tag is None:
                rec.fail("activator/unknown-handler", "leg %d: a handler that belongs to no tagger was returned" % leg,
                         args)
            got.setdefault(tag, []).append((h, ident))
        for tag in got:
            if tag not in creates:
                rec.fail("activator/created-outside-list", "leg %d: handlers of tagger %s were started although it is "
                         "not in the create list %r" % (leg, tag, creates), args)
        for tag in creates:
            n = want[tag] if active[tag] else 0
            started = got.get(tag, [])
            if len(started) != n:
                rec.fail("activator/number-started", "leg %d: tagger %s (%s) generates %d in-states, %d handlers were "
                         "started" % (leg, tag, "activated" if active[tag] else "deactivated", n, len(started)), args)
            idents = sorted(i for _, i in started)
            if idents != [(tag, j) for j in range(n)]:
                rec.fail("activator/in-states", "leg %d: tagger %s: in-state identifiers %r handed out, generated %r"
                         % (leg, tag, idents, [(tag, j) for j in range(n)]), args)
            for h, _ in started:
                if any(h is r for r in running[tag]):
                    rec.fail("activator/started-while-running", "leg %d: a handler of tagger %s was started again while "
                             "its previous event is still pending" % (leg, tag), args)
                running[tag].append(h)
            if len(running[tag]) > pool[tag]:
                rec.fail("activator/more-than-owned", "leg %d: tagger %s runs %d handlers, owns %d"
                         % (leg, tag, len(running[tag]), pool[tag]), args)
        return True

    def expect_error(creates, want):
        for tag in creates:
            n = want[tag] if active[tag] else 0
            if len(running[tag]) + n > pool[tag]:
                return tag
        return None

    # ---- first leg
    start_tag = taggers[0]["tag"]
    want0 = {tag: 0 for tag in by_tag}
    want0[start_tag] = start_want
    switch(start_tag)
    result = activator.get_event_handlers_to_run(want0, None)
    check_started(result, [start_tag], want0, 0)
    ended = None
    for leg, step in enumerate(legs, 1):
        candidates = [(tag, h) for tag in sorted(running) for h in running[tag]]
        if not candidates:
            ended = "nothing-running"
            break
        ptag, ph = candidates[step["pick"] % len(candidates)]
        # trash
        trashable = activator.get_trashable_events(ph)
        expected = [h for tag in by_tag[ptag]["trash"] for h in running[tag]]
        if sorted(map(id, trashable)) != sorted(map(id, expected)):
            missing = [owner[id(h)] for h in expected if not any(h is x for x in trashable)]
            extra = [owner.get(id(h)) for h in trashable if not any(h is x for x in expected)]
            rec.fail("activator/trashable-mismatch", "leg %d: after an event of tagger %s (trash list %r) the trashable "
                     "handlers miss pending events of %r and contain non-pending ones of %r"
                     % (leg, ptag, by_tag[ptag]["trash"], missing, extra), args)
        for tag in by_tag[ptag]["trash"]:
            running[tag] = []
        switch(ptag)
        creates = by_tag[ptag]["create"]
        want = {tag: min(step["level"][tag], pool[tag] - len(running[tag])) for tag in by_tag}
        if step["overflow"] is not None:
            want[step["overflow"]] = pool[step["overflow"]] - len(running[step["overflow"]]) + 1
        step = dict(step, want=want)
        bad = expect_error(creates, step["want"])
        try:
            result = activator.get_event_handlers_to_run(dict(step["want"]), ph)
        except TagActivatorError:
            if bad is None:
                rec.fail("activator/spurious-error", "leg %d: TagActivatorError although every tagger of the create "
                         "list %r has enough handlers (running %r, pools %r, wanted %r)"
                         % (leg, creates, {t: len(running[t]) for t in creates}, {t: pool[t] for t in creates},
                            {t: step["want"][t] for t in creates}), args)
            ended = "pool-exhausted"
            flags.add("pool-exhausted")
            break
        if bad is not None:
            rec.fail("activator/missing-error", "leg %d: tagger %s needs more handlers than it owns (running %d, wanted "
                     "%d, pool %d) but no TagActivatorError was raised"
                     % (leg, bad, len(running[bad]), step["want"][bad], pool[bad]), args)
            break
        check_started(result, creates, step["want"], leg)
        if any(not a for a in active.values()):
            flags.add("some-deactivated")
    nt = "some-deactivated" in flags or "deactivated-while-running" in flags
    rec.case("+".join(sorted(flags)) or "all-activated", repr(args), nt,
             {"taggers": len(taggers), "legs_run": len(legs) if ended is None else ended, "flags": sorted(flags)})


CHECKS = [Check("activator_model", lambda rec, c=None, **kw: body_activator(rec, **(c if c is not None else kw)),
                lambda: {"c": wiring_case()}, quick=400, thorough=4000, quick_shards=6, thorough_shards=16)]
