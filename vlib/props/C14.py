"""C14 - time stamps keep full resolution and order however long the run is.

Oracle: exact rational arithmetic (fractions.Fraction) on the float operands."""
import math
from fractions import Fraction

from hypothesis import strategies as st

from .. import gen
from ..runner import Check

PROPERTY = "C14"
RULE = ("Hypothesis draws (quotient, remainder, displacement) and pairs of normalised times from mixtures weighted "
        "towards the ends of the ranges (quotients up to 2^52 incl. powers of two +-2, remainders 0/denormal/largest "
        "float below 1, displacements from denormals to 2^40, exact integers, values landing r+dt on or next to an "
        "integer, +inf); oracle = Fraction arithmetic. Non-trivial: an addition that carries into the quotient, a "
        "comparison/subtraction of two times with equal quotients or equal remainders, a from_float with a "
        "fractional part and an integer part >= 1, or an infinite operand; distinct by the exact operands.")
ASSUMPTIONS = ["times handed to Time arithmetic are normalised (integral quotient, remainder in [0,1)), as every "
               "Time produced by from_float/__add__ is; displacements are non-negative floats (callers add "
               "non-negative time displacements only)",
               "python float == IEEE binary64, fractions.Fraction exact"]


def _time_mod():
    from jellyfysh.base import time as jtime
    return jtime


def exact(t):
    return Fraction(t.quotient) + Fraction(t.remainder)


def normalised(t):
    q, r = t.quotient, t.remainder
    return (not math.isnan(q)) and (not math.isnan(r)) and q == math.floor(q) and 0.0 <= r < 1.0


def displacement_strategy():
    return st.one_of(
        st.sampled_from([0.0, gen.DENORM_MIN, 2.0 ** -1022, 2.0 ** -60, 2.0 ** -53, 2.0 ** -52, 0.5, 1.0,
                         gen.BELOW_ONE, math.nextafter(1.0, 2.0), 2.0 ** 40, 2.0 ** 40 - 0.5]),
        gen.log_uniform(1e-310, 2.0 ** 40),
        gen.floats(0.0, 4.0),
        st.integers(0, 2 ** 40).map(float),
        gen.log_uniform(1.0, 2.0 ** 40).flatmap(lambda x: gen.near(float(int(x)), 2)),
    )


@st.composite
def add_case(draw):
    q = draw(gen.quotients())
    r = draw(gen.unit_interval_remainders())
    kind = draw(st.sampled_from(["any", "any", "land"]))
    if kind == "land":
        # displacement that makes r + dt land on / next to an integer
        k = draw(st.one_of(st.integers(1, 4), st.integers(1, 2 ** 30)))
        dt = float(k) - r
        dt = draw(gen.near(dt, 2))
        if dt < 0.0:
            dt = 0.0
    else:
        dt = draw(displacement_strategy())
    return {"q": q, "r": r, "dt": dt}


def body_add(rec, q, r, dt, dt2=None):
    jt = _time_mod()
    t = jt.Time(q, r)
    res = t + dt
    args = {"q": q, "r": r, "dt": dt}
    if not normalised(res):
        rec.fail("add/not-normalised", "Time(%r,%r)+%r = %r is not normalised" % (q, r, dt, res), args)
    want = Fraction(q) + Fraction(r) + Fraction(dt)
    got = exact(res)
    tol = Fraction(math.ulp(r + dt)) / 2
    if abs(got - want) > tol:
        rec.fail("add/resolution", "Time(%r,%r)+%r = %r: error %.3e exceeds one rounding of the remainder %.3e"
                 % (q, r, dt, res, float(abs(got - want)), float(tol)), args)
    if res < t:
        rec.fail("add/decreases", "Time(%r,%r)+%r = %r is below the operand" % (q, r, dt, res), args)
    carry = res.quotient != q
    rec.case("add-carry" if carry else "add-nocarry", (q, r, dt), carry, args)


def body_add_monotone(rec, q, r, dt, dt2):
    jt = _time_mod()
    t = jt.Time(q, r)
    lo, hi = (dt, dt2) if dt <= dt2 else (dt2, dt)
    a, b = t + lo, t + hi
    args = {"q": q, "r": r, "dt": dt, "dt2": dt2}
    if not a <= b or a > b:
        rec.fail("add/not-monotone", "t=Time(%r,%r): t+%r = %r  >  t+%r = %r" % (q, r, lo, a, hi, b), args)
    nt = a.quotient != b.quotient or a.quotient != q
    rec.case("monotone-carry" if nt else "monotone", (q, r, lo, hi), nt, args)


@st.composite
def monotone_case(draw):
    c = draw(add_case())
    kind = draw(st.sampled_from(["near", "any"]))
    if kind == "near":
        c["dt2"] = max(0.0, draw(gen.near(c["dt"], 3)))
    else:
        c["dt2"] = draw(displacement_strategy())
    return c


@st.composite
def pair_case(draw):
    q1 = draw(gen.quotients())
    r1 = draw(gen.unit_interval_remainders())
    kind = draw(st.sampled_from(["same_q", "same_r", "adjacent_q", "any", "near"]))
    if kind == "same_q":
        q2, r2 = q1, draw(st.one_of(gen.unit_interval_remainders(), gen.near(r1, 2)))
    elif kind == "same_r":
        q2, r2 = draw(gen.quotients()), r1
    elif kind == "adjacent_q":
        q2, r2 = q1 + draw(st.sampled_from([-1.0, 1.0])), draw(gen.unit_interval_remainders())
    elif kind == "near":
        q2 = q1 + float(draw(st.integers(-3, 3)))
        r2 = draw(gen.near(r1, 2))
    else:
        q2, r2 = draw(gen.quotients()), draw(gen.unit_interval_remainders())
    q2 = min(max(q2, 0.0), 2.0 ** 52)
    r2 = min(max(r2, 0.0), gen.BELOW_ONE)
    return {"q1": q1, "r1": r1, "q2": q2, "r2": r2}


def body_compare(rec, q1, r1, q2, r2):
    jt = _time_mod()
    a, b = jt.Time(q1, r1), jt.Time(q2, r2)
    ea, eb = exact(a), exact(b)
    args = {"q1": q1, "r1": r1, "q2": q2, "r2": r2}
    table = [("<", a < b, ea < eb), ("<=", a <= b, ea <= eb), (">", a > b, ea > eb), (">=", a >= b, ea >= eb),
             ("==", a == b, ea == eb), ("!=", a != b, ea != eb)]
    for op, got, want in table:
        if bool(got) != want:
            rec.fail("compare/%s" % op, "%r %s %r is %r, exact order says %r" % (a, op, b, got, want), args)
    # subtraction
    diff = a - b
    want = ea - eb
    tol = 4 * Fraction(math.ulp(max(1.0, abs(float(want)))))
    if math.isnan(diff) or abs(Fraction(diff) - want) > tol:
        rec.fail("sub/accuracy", "%r - %r = %r, exact %.17g, error %.3e > %.3e"
                 % (a, b, diff, float(want), float(abs(Fraction(diff) - want)) if not math.isnan(diff) else
                    float("nan"), float(tol)), args)
    nt = q1 == q2 or r1 == r2
    label = "equal-quotient" if q1 == q2 else ("equal-remainder" if r1 == r2 else "other")
    rec.case(label, (q1, r1, q2, r2), nt, args)


def from_float_strategy():
    return {"x": st.one_of(
        st.sampled_from([0.0, gen.DENORM_MIN, 0.5, gen.BELOW_ONE, 1.0, math.nextafter(1.0, 2.0), 2.0 ** 52,
                         2.0 ** 52 - 0.5, 2.0 ** 53, 1e300]),
        gen.floats(0.0, 64.0), gen.log_uniform(1e-310, 2.0 ** 53),
        st.integers(0, 2 ** 52).map(float), gen.log_uniform(1.0, 2.0 ** 52).flatmap(
            lambda x: gen.near(float(int(x)), 2)))}


def body_from_float(rec, x):
    jt = _time_mod()
    t = jt.Time.from_float(x)
    args = {"x": x}
    if not normalised(t):
        rec.fail("from_float/not-normalised", "from_float(%r) = %r not normalised" % (x, t), args)
    if exact(t) != Fraction(x):
        rec.fail("from_float/inexact", "from_float(%r) = %r differs from the float" % (x, t), args)
    nt = t.quotient >= 1.0 and t.remainder != 0.0
    rec.case("mixed" if nt else ("integral" if t.remainder == 0.0 else "fraction"), x, nt, args)


@st.composite
def inf_case(draw):
    return {"q": draw(gen.quotients()), "r": draw(gen.unit_interval_remainders()),
            "dt": draw(st.one_of(displacement_strategy(), st.just(math.inf)))}


def body_inf(rec, q, r, dt):
    jt = _time_mod()
    t = jt.Time(q, r)
    args = {"q": q, "r": r, "dt": dt}
    s = t + math.inf
    if not (s == jt.inf and s.quotient == math.inf):
        rec.fail("inf/finite-plus-inf", "%r + inf = %r is not the infinite time" % (t, s), args)
    if not (jt.inf > t and jt.inf >= t and t < jt.inf and t <= jt.inf and jt.inf != t and not jt.inf == t
            and not jt.inf < t and not jt.inf <= t):
        rec.fail("inf/order", "inf does not compare larger than %r" % t, args)
    if not (jt.inf == jt.inf and jt.inf <= jt.inf and jt.inf >= jt.inf and not jt.inf < jt.inf
            and not jt.inf > jt.inf):
        rec.fail("inf/self", "inf does not equal itself", args)
    f = jt.Time.from_float(math.inf)
    if not f == jt.inf:
        rec.fail("inf/from_float", "from_float(inf) = %r" % f, args)
    a = jt.inf + dt
    if not (a == jt.inf):
        rec.fail("inf/absorbing", "inf + %r = %r: infinity is not absorbing" % (dt, a), args)
    rec.case("inf", (q, r, dt), True, args)


CHECKS = [
    Check("add", body_add, lambda: {"c": add_case()}, quick=6000, thorough=25000),
    Check("monotone", body_add_monotone, lambda: {"c": monotone_case()}, quick=3000, thorough=12000),
    Check("compare_sub", body_compare, lambda: {"c": pair_case()}, quick=6000, thorough=25000),
    Check("from_float", body_from_float, from_float_strategy, quick=3000, thorough=10000, quick_shards=2),
    Check("infinity", body_inf, lambda: {"c": inf_case()}, quick=1500, thorough=5000, quick_shards=2,
          thorough_shards=4),
]

# the composite strategies draw one dict `c`; unwrap it so that replay files hold plain keyword arguments
for _c in CHECKS:
    if _c.name != "from_float":
        _c.fn = (lambda f: (lambda rec, c=None, **kw: f(rec, **(c if c is not None else kw))))(_c.fn)
