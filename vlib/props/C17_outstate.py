"""C17 (handler part) - the out-states of the sampling and end-of-run handlers are fully time-sliced.

Runs only ever hand these handlers one independent active branch.  Here the branches are drawn directly: one to three
branches, of the same or of different composite objects (each branch carries its own copy of the root, as the state
handler hands them out), point masses or whole objects moving, individual time stamps.  After send_event_time /
send_out_state every unit with a velocity must carry the event time and sit where its own trajectory puts it."""
import math

from hypothesis import strategies as st

from .. import gen
from ..runner import Check

PROPERTY = "C17"


@st.composite
def outstate_case(draw):
    sites = draw(st.sampled_from([1, 2, 3]))
    n_branches = draw(st.integers(1, 3))
    branches = []
    for _ in range(n_branches):
        root = draw(st.integers(0, 1))
        whole = sites > 1 and draw(st.integers(0, 3)) == 0
        branches.append({"root": root, "leaf": draw(st.integers(0, sites - 1)), "whole": whole,
                         "position": [draw(gen.floats(0.0, 0.999)) for _ in range(3)],
                         "stamp": draw(gen.floats(0.0, 0.9)),
                         "direction": draw(st.integers(0, 2)), "speed": draw(st.sampled_from([1.0, 0.5, 2.0]))})
    return {"sites": sites, "branches": branches, "handler": draw(st.sampled_from(["sampling", "sampling", "end_of_run"])),
            "event_time": draw(gen.floats(1.0, 3.0))}


def body_outstate(rec, sites, branches, handler, event_time):
    import jellyfysh.setting as setting
    from jellyfysh.setting import hypercubic_setting
    from jellyfysh.base.node import Node
    from jellyfysh.base.time import Time
    from jellyfysh.base.unit import Unit
    args = {"sites": sites, "branches": branches, "handler": handler, "event_time": event_time}
    setting.reset()
    hypercubic_setting.HypercubicSetting(beta=1.0, dimension=3, system_length=1.0)
    setting.set_number_of_root_nodes(2)
    setting.set_number_of_nodes_per_root_node(sites)
    setting.set_number_of_node_levels(2 if sites > 1 else 1)
    if handler == "sampling":
        from jellyfysh.event_handler.fixed_interval_sampling_event_handler import FixedIntervalSamplingEventHandler
        h = FixedIntervalSamplingEventHandler(sampling_interval=event_time, output_handler="out")
    else:
        from jellyfysh.event_handler.final_time_end_of_run_event_handler import FinalTimeEndOfRunEventHandler
        h = FinalTimeEndOfRunEventHandler(end_of_run_time=event_time)
    t_event = h.send_event_time()
    nodes, expected = [], []
    for b in branches:
        v = [0.0, 0.0, 0.0]
        v[b["direction"]] = b["speed"]
        stamp = Time.from_float(b["stamp"])
        if sites == 1:
            unit = Unit((b["root"],), list(b["position"]), None, list(v), Time.from_float(b["stamp"]))
            nodes.append(Node(unit, weight=1))
            expected.append((unit, list(b["position"]), list(v), b["stamp"]))
            continue
        w = 1.0 / sites
        moving = range(sites) if b["whole"] else [b["leaf"]]
        root_v = list(v) if b["whole"] else [x * w for x in v]
        root = Node(Unit((b["root"],), list(b["position"]), None, root_v, Time.from_float(b["stamp"])), weight=1)
        expected.append((root.value, list(b["position"]), root_v, b["stamp"]))
        for leaf in moving:
            p = [(x + 0.01 * (leaf + 1)) % 1.0 for x in b["position"]]
            u = Unit((b["root"], leaf), list(p), None, list(v), Time.from_float(b["stamp"]))
            root.add_child(Node(u, weight=w))
            expected.append((u, p, list(v), b["stamp"]))
        nodes.append(root)
    out = h.send_out_state(nodes)
    tq, tr = t_event.quotient, t_event.remainder
    for unit, p0, v0, s0 in expected:
        if unit.velocity is None:
            rec.fail("outstate/velocity-removed", "%s handler removed the velocity of unit %r" % (handler, unit.identifier),
                     args)
            continue
        if (unit.time_stamp.quotient, unit.time_stamp.remainder) != (tq, tr):
            rec.fail("outstate/not-time-sliced", "%s handler: unit %r of the out-state carries time stamp %r, the event "
                     "time is %r (branches of objects %r)" % (handler, unit.identifier, unit.time_stamp, t_event,
                                                              [b["root"] for b in branches]), args)
            continue
        dt = (tq + tr) - s0
        for d in range(3):
            want = (p0[d] + v0[d] * dt) % 1.0
            diff = abs(unit.position[d] - want)
            if min(diff, 1.0 - diff) > 1e-12:
                rec.fail("outstate/position", "%s handler: unit %r coordinate %d is %r, its trajectory gives %r"
                         % (handler, unit.identifier, d, unit.position[d], want), args)
    same_root = len({b["root"] for b in branches}) < len(branches)
    rec.case("%s/%d-branch%s%s" % (handler, len(branches), "/same-object" if same_root else "",
                                   "/sites%d" % sites), repr(sorted(args.items())), len(branches) >= 2, args)


CHECKS = [Check("out_state_time_sliced", lambda rec, c=None, **kw: body_outstate(rec, **(c if c is not None else kw)),
                lambda: {"c": outstate_case()}, quick=400, thorough=4000, quick_shards=2, thorough_shards=8)]
