"""C11 (handler part) - the cell-boundary event handler on directly drawn in-states.

"The active unit never leaves its recorded cell without a cell-boundary event, and after such an event it is in the
neighbouring cell."  In runs the monitor sees what the shipped wirings reach (mostly axis-parallel motion upwards; the
family G6 adds oblique motion).  Here the handler is given generated branches directly: cubic and cuboid boxes, grids
with two to seven cells per side along the axes of motion (one cell allowed on the others), positions in the bulk, exactly
on a wall, one ulp next to a wall and at the top of the box, velocities with one to `dimension` non-zero components of
either sign and widely differing magnitudes, a point mass, a point mass of a composite object (cell level 2) or a whole
object moving (cell level 1).

Oracle (independent of `neighbor_cell` and `next_image`, it only uses the extents of the unit's own cell and index
arithmetic on cell identifiers):
 * the candidate time is the first time at which some coordinate reaches a wall of the unit's own cell,
   min over axes of (cell_max - x)/v for v > 0 and (x - cell_min)/|v| for v < 0 (tolerance: rounding of the wall and of
   the division) - not earlier (a spurious event is harmless but "the neighbouring cell" below would be wrong) and not
   later (the unit would leave its cell without an event);
 * in the out-state the coordinate of a crossing axis sits exactly on the limit of the neighbour cell (identifier +-1
   modulo the number of cells on that axis) that faces the old cell, `position_to_cell` of the new position is that
   neighbour on the crossing axis and the old cell on every axis that is not within tolerance of crossing as well;
 * every unit of the branch carries the event time, keeps its velocity and sits where its trajectory puts it."""
import math

from hypothesis import strategies as st

from .. import gen
from ..runner import Check

PROPERTY = "C11"


@st.composite
def boundary_case(draw):
    dim = draw(st.sampled_from([2, 3]))
    n_moving = draw(st.integers(1, dim))
    axes = draw(st.permutations(list(range(dim))))[:n_moving]
    # an axis with a single cell has no neighbour but the cell itself (the statement says nothing there): only on
    # axes along which the unit does not move
    per = [draw(st.sampled_from([2, 2, 3, 3, 4, 5, 6, 7] if a in axes else [1, 2, 3, 5])) for a in range(dim)]
    cubic = draw(st.booleans())
    lengths = ([draw(st.sampled_from([1.0, 2.0, 0.7]))] * dim if cubic
               else [draw(st.sampled_from([1.0, 2.0, 0.7, 3.3])) for _ in range(dim)])
    position = []
    for L, n in zip(lengths, per):
        side = L / n
        kind = draw(st.sampled_from(["bulk", "bulk", "wall", "top"]))
        if kind == "bulk":
            x = draw(gen.floats(0.0, math.nextafter(L, 0.0)))
        elif kind == "wall":
            x = gen.step(draw(st.integers(0, n - 1)) * side, draw(st.sampled_from([0, 0, 1, -1, 2])))
        else:
            x = gen.step(L, -draw(st.integers(1, 3)))
        position.append(min(max(x, 0.0), math.nextafter(L, 0.0)))
    velocity = [0.0] * dim
    for a in axes:
        mag = draw(st.one_of(st.sampled_from([1.0, 0.5, 2.0]), gen.log_uniform(1e-3, 1e3)))
        velocity[a] = mag if draw(st.booleans()) else -mag
    shape = draw(st.sampled_from(["point", "point", "leaf_of_composite", "whole_object"]))
    return {"dim": dim, "per_side": per, "lengths": lengths, "position": position, "velocity": velocity,
            "shape": shape, "stamp": draw(st.one_of(st.just(0.0), gen.floats(0.0, 50.0))),
            "kids": draw(st.integers(2, 3)), "leaf": draw(st.integers(0, 1))}


def body_boundary(rec, **c):
    import jellyfysh.setting as setting
    from jellyfysh.setting import hypercubic_setting, hypercuboid_setting
    from jellyfysh.base.node import Node
    from jellyfysh.base.time import Time
    from jellyfysh.base.unit import Unit
    from jellyfysh.activator.internal_state.cell_occupancy.cells.cuboid_periodic_cells import CuboidPeriodicCells
    from jellyfysh.event_handler.cell_boundary_event_handler import CellBoundaryEventHandler
    from ..engine import reset_globals
    reset_globals()
    dim, lengths, per, shape = c["dim"], c["lengths"], c["per_side"], c["shape"]
    if all(L == lengths[0] for L in lengths):
        hypercubic_setting.HypercubicSetting(beta=1.0, dimension=dim, system_length=lengths[0])
    else:
        hypercuboid_setting.HypercuboidSetting(beta=1.0, dimension=dim, system_lengths=list(lengths))
    kids = c["kids"] if shape != "point" else 1
    setting.set_number_of_root_nodes(2)
    setting.set_number_of_nodes_per_root_node(kids)
    setting.set_number_of_node_levels(1 if shape == "point" else 2)
    cells = CuboidPeriodicCells(cells_per_side=list(per), neighbor_layers=0)
    by_ident = {tuple(cell.identifier): cell for cell in cells.yield_cells()}
    handler = CellBoundaryEventHandler()
    cell_level = 2 if shape == "leaf_of_composite" else 1
    handler.initialize(cells, cell_level)
    v, x0, s0 = list(c["velocity"]), list(c["position"]), c["stamp"]

    def wrap(p):
        return [min(max(q % L, 0.0), math.nextafter(L, 0.0)) if not 0.0 <= q < L else q for q, L in zip(p, lengths)]

    expected = []          # (unit, start position, velocity)
    if shape == "point":
        relevant = Unit((1,), list(x0), None, list(v), Time.from_float(s0))
        branch = Node(relevant, weight=1)
        expected.append((relevant, list(x0), list(v)))
    elif shape == "leaf_of_composite":
        w = 1.0 / kids
        root_pos = wrap([q + 0.013 for q in x0])
        root_v = [q * w for q in v]
        root = Unit((1,), list(root_pos), None, list(root_v), Time.from_float(s0))
        relevant = Unit((1, c["leaf"]), list(x0), None, list(v), Time.from_float(s0))
        branch = Node(root, weight=1)
        branch.add_child(Node(relevant, weight=w))
        expected += [(root, root_pos, root_v), (relevant, list(x0), list(v))]
    else:
        relevant = Unit((1,), list(x0), None, list(v), Time.from_float(s0))
        branch = Node(relevant, weight=1)
        expected.append((relevant, list(x0), list(v)))
        for k in range(kids):
            p = wrap([q + 0.011 * (k + 1) for q in x0])
            u = Unit((1, k), list(p), None, list(v), Time.from_float(s0))
            branch.add_child(Node(u, weight=1.0 / kids))
            expected.append((u, p, list(v)))
    cell0 = cells.position_to_cell(list(x0))
    lo, hi = list(cell0.cell_min), list(cell0.cell_max)
    if any(not lo[a] <= x0[a] <= hi[a] for a in range(dim)):
        rec.exclude("position outside the extent of its own cell (the grid is C16's business)")
        return
    stamp0 = Time.from_float(s0)
    t_event = handler.send_event_time([branch])
    dt = (t_event.quotient - stamp0.quotient) + (t_event.remainder - stamp0.remainder)
    exits = {}
    for a in range(dim):
        if v[a] > 0.0:
            exits[a] = (hi[a] - x0[a]) / v[a]
        elif v[a] < 0.0:
            exits[a] = (x0[a] - lo[a]) / -v[a]
    want = min(exits.values())

    def tol(a):
        return (8 * math.ulp(lengths[a]) / abs(v[a]) + 1e-12 * max(1.0, exits[a]) + 4 * math.ulp(max(s0, 1.0)))

    first = min(exits, key=lambda a: exits[a])
    label = "%s/%d-axes/%s%s" % (shape, len(exits), "down" if v[first] < 0 else "up",
                                 "/two-cell-axis" if per[first] == 2 else "")
    if dt < -4 * math.ulp(max(s0, 1.0)):
        rec.fail("boundary/time-in-the-past", "candidate time %r lies before the time stamp %r" % (t_event, s0), c)
        return
    if dt > want + tol(first):
        rec.fail("boundary/too-late", "cell-boundary event after %r; the unit at %r with velocity %r leaves its cell "
                 "[%r, %r] on axis %d after %r already (cells per side %r, box %r)"
                 % (dt, x0, v, lo[first], hi[first], first, want, per, lengths), c)
        return
    if dt < want - tol(first):
        rec.fail("boundary/too-early", "cell-boundary event after %r; the unit at %r with velocity %r reaches the first "
                 "wall of its cell [%r, %r] (axis %d) only after %r (cells per side %r, box %r)"
                 % (dt, x0, v, lo[first], hi[first], first, want, per, lengths), c)
        return
    out = handler.send_out_state()
    if len(out) != 1 or out[0] is not branch and out[0].value.identifier != branch.value.identifier:
        rec.fail("boundary/out-state-shape", "out-state is not the in-state branch", c)
        return
    crossing = [a for a in exits if exits[a] <= dt + tol(a)]
    new_pos = list(relevant.position)
    new_cell = cells.position_to_cell(list(new_pos))
    on_wall = []
    for a in crossing:
        i, n = cell0.identifier[a], per[a]
        ident = list(cell0.identifier)
        ident[a] = (i + (1 if v[a] > 0 else -1)) % n
        neighbour = by_ident[tuple(ident)]
        wall = neighbour.cell_min[a] if v[a] > 0 else neighbour.cell_max[a]
        if new_pos[a] == wall:
            on_wall.append((a, ident[a]))
    if not on_wall:
        rec.fail("boundary/not-on-neighbour-limit", "after the event the unit is at %r; no crossing axis %r sits on the "
                 "facing limit of the neighbour cell (old cell %r, extent %r..%r, velocity %r)"
                 % (new_pos, crossing, tuple(cell0.identifier), lo, hi, v), c)
        return
    if not any(new_cell.identifier[a] == want_index for a, want_index in on_wall):
        rec.fail("boundary/wrong-cell", "after the event the unit at %r lies in cell %r; expected the neighbour of %r "
                 "along axis %r (velocity %r)" % (new_pos, tuple(new_cell.identifier), tuple(cell0.identifier),
                                                  [a for a, _ in on_wall], v), c)
        return
    for a in range(dim):
        if a not in crossing and new_cell.identifier[a] != cell0.identifier[a]:
            rec.fail("boundary/wrong-cell", "after the event the cell index on axis %d changed from %d to %d although "
                     "that axis is not crossing (exit times %r, event after %r)"
                     % (a, cell0.identifier[a], new_cell.identifier[a], exits, dt), c)
            return
    tq, tr = t_event.quotient, t_event.remainder
    for unit, p0, v0 in expected:
        if unit.velocity is None or list(unit.velocity) != list(v0):
            rec.fail("boundary/velocity-changed", "unit %r: velocity %r became %r" % (unit.identifier, v0, unit.velocity),
                     c)
            return
        if (unit.time_stamp.quotient, unit.time_stamp.remainder) != (tq, tr):
            rec.fail("boundary/not-time-sliced", "unit %r carries time stamp %r, the event time is %r"
                     % (unit.identifier, unit.time_stamp, t_event), c)
            return
        for a in range(dim):
            L = lengths[a]
            target = (p0[a] + v0[a] * dt) % L
            diff = abs(unit.position[a] - target)
            slack = 1e-11 * L + abs(v0[a]) * (4 * math.ulp(max(s0, 1.0)) + 4 * math.ulp(max(dt, 1e-300)))
            if min(diff, L - diff) > slack + 8 * math.ulp(L):
                rec.fail("boundary/position", "unit %r coordinate %d is %r, its trajectory gives %r"
                         % (unit.identifier, a, unit.position[a], target), c)
                return
            if not 0.0 <= unit.position[a] < L:
                rec.fail("boundary/outside-box", "unit %r coordinate %d is %r, outside [0, %r)"
                         % (unit.identifier, a, unit.position[a], L), c)
                return
    nontrivial = len(exits) >= 2 or v[first] < 0 or x0[first] in (lo[first], hi[first])
    rec.case(label, repr(sorted(c.items())), nontrivial, c)


CHECKS = [Check("boundary_handler", lambda rec, c=None, **kw: body_boundary(rec, **(c if c is not None else kw)),
                lambda: {"c": boundary_case()}, quick=3000, thorough=40000, quick_shards=8, thorough_shards=16)]
