"""C07 (helper part) - the shared time-slicing helper keeps every coordinate in the box and on the trajectory.

`BasicEventHandler._time_slice_unit` / `_time_slice_all_units_in_state` advance the units of an in-state to the event time
for every event handler; the histories only visit the velocities the shipped end-of-chain handlers produce from generic
positions.  Here positions (exactly 0.0, the largest float below L, tiny values), velocity components (0, +-1, speeds
over twelve decades, and the +-1e-17...1e-13 residues that rotations by multiples of 90 degrees leave behind) and time
displacements are drawn directly.  Oracle (Fractions): every new coordinate lies in [0, L) and is congruent to
p + v*dt modulo L within the rounding of that sum; resting units are untouched; time stamps equal the event time."""
import math
from fractions import Fraction

from hypothesis import strategies as st

from .. import gen
from ..runner import Check

PROPERTY = "C07"


@st.composite
def slice_case(draw):
    dim = draw(st.integers(1, 3))
    lengths = [draw(st.sampled_from([1.0, 2.0, 4.0, 12.836, 0.37]))] * dim if draw(st.booleans()) else [
        draw(st.sampled_from([1.0, 2.0, 3.3, 18.0])) for _ in range(dim)]
    pos, vel = [], []
    for L in lengths:
        top = math.nextafter(L, 0.0)
        pos.append(draw(st.one_of(st.sampled_from([0.0, top, 5e-324, 1e-17, L / 2.0]), gen.floats(0.0, top))))
        tiny = st.sampled_from([6.1e-17, 1.2e-16, 1.8e-16, 2.4e-16, 1e-15, 1e-14, 9e-14, 1e-13, 1.1e-13]).flatmap(
            lambda a: st.sampled_from([a, -a]))
        vel.append(draw(st.one_of(st.sampled_from([0.0, 1.0, -1.0, 0.5, -2.0]), tiny, tiny,
                                  gen.log_uniform(1e-6, 1e3).flatmap(lambda a: st.sampled_from([a, -a])))))
    if all(v == 0.0 for v in vel):
        vel[0] = 1.0
    q = draw(st.sampled_from([0.0, 1.0, 57.0, 2.0 ** 40]))
    r = draw(gen.floats(0.0, 0.999))
    dt = draw(st.one_of(st.sampled_from([0.0, 0.5, 1.0, 3.5]), gen.log_uniform(1e-9, 1e3)))
    return {"lengths": lengths, "position": pos, "velocity": vel, "stamp": [q, r], "dt": dt,
            "resting_too": draw(st.booleans())}


def body_slice(rec, lengths, position, velocity, stamp, dt, resting_too):
    import jellyfysh.setting as setting
    from jellyfysh.setting import hypercubic_setting, hypercuboid_setting
    from jellyfysh.base.node import Node
    from jellyfysh.base.time import Time
    from jellyfysh.base.unit import Unit
    from jellyfysh.event_handler.abstracts.abstracts import BasicEventHandler
    args = {"lengths": lengths, "position": position, "velocity": velocity, "stamp": stamp, "dt": dt,
            "resting_too": resting_too}
    setting.reset()
    dim = len(lengths)
    if all(L == lengths[0] for L in lengths):
        hypercubic_setting.HypercubicSetting(beta=1.0, dimension=dim, system_length=lengths[0])
    else:
        hypercuboid_setting.HypercuboidSetting(beta=1.0, dimension=dim, system_lengths=list(lengths))

    class Stub(BasicEventHandler):
        def send_event_time(self, *a):
            raise NotImplementedError

        def send_out_state(self, *a):
            raise NotImplementedError
    handler = Stub()
    t0 = Time(stamp[0], stamp[1])
    event_time = t0 + dt
    real_dt = event_time - Time(stamp[0], stamp[1])          # what the code itself uses as the displacement in time
    moving = Unit((0,), list(position), None, list(velocity), t0)
    nodes = [Node(moving, weight=1)]
    resting_position = [p for p in position]
    if resting_too:
        nodes.append(Node(Unit((1,), list(resting_position), None, None, None), weight=1))
    handler._store_in_state(nodes)
    handler._event_time = event_time
    handler._time_slice_all_units_in_state()
    tiny_component = any(0.0 < abs(v) <= 1.1e-13 for v in velocity)
    on_wall = any(p == 0.0 or p == math.nextafter(L, 0.0) for p, L in zip(position, lengths))
    for d, L in enumerate(lengths):
        x = moving.position[d]
        if not (0.0 <= x < L):
            rec.fail("slice/outside-box", "coordinate %d of a unit with velocity %r at %r is %r after time-slicing by %r "
                     "(box length %r)" % (d, velocity, position, x, real_dt, L), args)
            continue
        raw = position[d] + velocity[d] * real_dt              # the float the code wraps
        diff = Fraction(x) - Fraction(raw)
        k = round(diff / Fraction(L))
        if abs(diff - k * Fraction(L)) > 2 * Fraction(math.ulp(max(abs(raw), L))):
            rec.fail("slice/off-trajectory", "coordinate %d: %r is not congruent to %r + %r * %r modulo %r"
                     % (d, x, position[d], velocity[d], real_dt, L), args)
    if (moving.time_stamp.quotient, moving.time_stamp.remainder) != (event_time.quotient, event_time.remainder):
        rec.fail("slice/time-stamp", "time stamp %r after time-slicing to %r" % (moving.time_stamp, event_time), args)
    if resting_too:
        other = nodes[1].value
        if other.position != resting_position or other.velocity is not None or other.time_stamp is not None:
            rec.fail("slice/resting-unit-touched", "a resting unit was changed: %r" % (other.position,), args)
    rec.case(("tiny-component" if tiny_component else "plain") + ("+on-wall" if on_wall else ""),
             repr(sorted(args.items())), tiny_component or on_wall, args)


CHECKS = [Check("time_slice_helper", lambda rec, c=None, **kw: body_slice(rec, **(c if c is not None else kw)),
                lambda: {"c": slice_case()}, quick=1500, thorough=15000, quick_shards=4, thorough_shards=16)]
