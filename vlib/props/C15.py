"""C15 - periodic wrapping and minimum-image separations are exact modular arithmetic.

Oracle: Fraction arithmetic on the float operands (congruence modulo the float box length)."""
import math
from fractions import Fraction

from hypothesis import strategies as st

from .. import gen
from ..runner import Check

PROPERTY = "C15"
RULE = ("Hypothesis draws dimension 1-3, a cubic length or cuboid lengths from {1,2,0.1,3.3,18,1e-3,1e3,log-uniform}, "
        "and entries k*L+f with |k|<=1000 and f in {0, +-denormal..+-1e-17, nextafter(L,0), L, uniform}; positions "
        "for separation_vector are in [0,L) in three cases of four and unfolded (k*L+f, either or both operands) in "
        "the fourth. Oracle: Fractions (result in [0,L) strictly, congruent to the input "
        "within one ulp(L), idempotent, |separation|<=L/2 and congruent to the difference, cubic==cuboid bit for "
        "bit, next_image adds exactly L). Non-trivial: an entry within 4 ulp of 0 or of a multiple of L, or |k|>=1; "
        "distinct by exact operands.")
ASSUMPTIONS = ["box lengths are positive finite floats in [1e-3, 1e3]; positions handed to separation_vector are finite, "
               "folded or not (tolerance 4 ulp of the largest operand)", "fractions.Fraction exact; float % follows C fmod"]

LENGTHS = [1.0, 2.0, 0.1, 3.3, 18.0, 1e-3, 1e3]


def length_strategy():
    return st.one_of(st.sampled_from(LENGTHS), gen.log_uniform(1e-3, 1e3))


def entry_strategy(L):
    """k*L + f"""
    tiny = st.sampled_from([0.0, 5e-324, 1e-300, 1e-200, 1e-100, 1e-30, 1e-20, 1e-17, 1e-16]).flatmap(
        lambda a: st.sampled_from([a, -a]))
    f = st.one_of(tiny, st.just(math.nextafter(L, 0.0)), st.just(L), gen.floats(0.0, L),
                  tiny.map(lambda e: L / 2.0 + e), gen.near(L / 2.0, 3), gen.near(L, 3),
                  gen.log_uniform(1e-18, 1.0).map(lambda e: -e * L))
    k = st.one_of(st.just(0), st.just(0), st.integers(-2, 2), st.integers(-1000, 1000))
    return st.tuples(k, f).map(lambda kf: kf[0] * L + kf[1])


def inbox_strategy(L):
    top = math.nextafter(L, 0.0)
    return st.one_of(st.sampled_from([0.0, 5e-324, top, L / 2.0, math.nextafter(L / 2.0, 0.0),
                                      math.nextafter(L / 2.0, L)]),
                     gen.floats(0.0, top), gen.log_uniform(1e-300, 1.0).map(lambda e: min(top, e * L)),
                     gen.log_uniform(1e-17, 1.0).map(lambda e: min(top, max(0.0, L - e * L))))


@st.composite
def wrap_case(draw):
    dim = draw(st.integers(1, 3))
    cubic = draw(st.booleans())
    if cubic:
        lengths = [draw(length_strategy())] * dim
    else:
        lengths = [draw(length_strategy()) for _ in range(dim)]
    entries = [draw(entry_strategy(L)) for L in lengths]
    return {"cubic": cubic, "lengths": lengths, "entries": entries}


@st.composite
def separation_case(draw):
    dim = draw(st.integers(1, 3))
    cubic = draw(st.booleans())
    if cubic:
        lengths = [draw(length_strategy())] * dim
    else:
        lengths = [draw(length_strategy()) for _ in range(dim)]
    ref = [draw(inbox_strategy(L)) for L in lengths]
    kind = draw(st.sampled_from(["any", "half", "same", "unfolded"]))
    tgt = []
    if kind == "unfolded":
        # positions that were not folded back into the box (many box lengths away, either operand)
        which = draw(st.sampled_from(["tgt", "ref", "both"]))
        if which != "tgt":
            ref = [draw(entry_strategy(L)) for L in lengths]
        tgt = [draw(entry_strategy(L)) if which != "ref" else draw(inbox_strategy(L)) for L in lengths]
        return {"cubic": cubic, "lengths": lengths, "ref": ref, "tgt": tgt}
    for L, r in zip(lengths, ref):
        if kind == "half":
            t = draw(gen.near((r + L / 2.0) % L if (r + L / 2.0) % L < L else 0.0, 3))
            t = min(max(t, 0.0), math.nextafter(L, 0.0))
        elif kind == "same":
            t = min(max(draw(gen.near(r, 2)), 0.0), math.nextafter(L, 0.0))
        else:
            t = draw(inbox_strategy(L))
        tgt.append(t)
    return {"cubic": cubic, "lengths": lengths, "ref": ref, "tgt": tgt}


def make_setting(cubic, lengths):
    """Initialise the setting package; returns (primary boundaries, other implementation or None)."""
    import jellyfysh.setting as setting
    from jellyfysh.setting import hypercubic_setting, hypercuboid_setting
    setting.reset()
    dim = len(lengths)
    if cubic:
        hypercubic_setting.HypercubicSetting(beta=1.0, dimension=dim, system_length=lengths[0])
        # the cubic constructor also initialises the cuboid module ("similar module"): both are usable
        return setting.periodic_boundaries, hypercuboid_setting.HypercuboidPeriodicBoundaries
    hypercuboid_setting.HypercuboidSetting(beta=1.0, dimension=dim, system_lengths=list(lengths))
    return setting.periodic_boundaries, None


def congruent(x, y, L, tol):
    """|x - y - k L| <= tol for the best integer k (exact)."""
    d = Fraction(x) - Fraction(y)
    k = round(d / Fraction(L))
    return abs(d - k * Fraction(L)) <= tol, k


def near_multiple(x, L):
    k = round(x / L)
    return abs(x - k * L) <= 4 * math.ulp(L)


def body_wrap(rec, cubic, lengths, entries):
    pb, other = make_setting(cubic, lengths)
    args = {"cubic": cubic, "lengths": lengths, "entries": entries}
    vec = list(entries)
    pb.correct_position(vec)
    nt = False
    for i, (x, L) in enumerate(zip(entries, lengths)):
        y = pb.correct_position_entry(x, i)
        if vec[i] != y and not (math.isnan(vec[i]) and math.isnan(y)):
            rec.fail("wrap/vector-vs-entry", "correct_position gives %r, correct_position_entry %r for %r (L=%r)"
                     % (vec[i], y, x, L), args)
        if not (0.0 <= y < L):
            rec.fail("wrap/outside-box", "correct_position_entry(%r) = %r is not in [0, %r)" % (x, y, L), args)
            continue
        ok, k = congruent(x, y, L, Fraction(math.ulp(L)))
        if not ok:
            rec.fail("wrap/not-congruent", "correct_position_entry(%r) = %r is not congruent modulo %r" % (x, y, L),
                     args)
        yy = pb.correct_position_entry(y, i)
        if yy != y:
            rec.fail("wrap/not-idempotent", "correct_position_entry(%r) = %r but applied again %r (L=%r)"
                     % (x, y, yy, L), args)
        if other is not None:
            z = other.correct_position_entry(x, i)
            if z != y:
                rec.fail("wrap/cubic-vs-cuboid", "cubic %r, cuboid %r for %r (L=%r)" % (y, z, x, L), args)
        img = pb.next_image(x, i)
        if img != x + L:
            rec.fail("wrap/next-image", "next_image(%r) = %r, expected %r" % (x, img, x + L), args)
        nt = nt or k != 0 or near_multiple(x, L)
    rec.case("edge-or-far" if nt else "interior", (tuple(lengths), tuple(entries)), nt, args)


def body_separation_entries(rec, cubic, lengths, entries):
    """correct_separation(_entry) on arbitrary separations k*L+f."""
    pb, other = make_setting(cubic, lengths)
    args = {"cubic": cubic, "lengths": lengths, "entries": entries}
    vec = list(entries)
    pb.correct_separation(vec)
    nt = False
    for i, (s, L) in enumerate(zip(entries, lengths)):
        y = pb.correct_separation_entry(s, i)
        if vec[i] != y:
            rec.fail("sep/vector-vs-entry", "correct_separation %r vs entry %r for %r (L=%r)" % (vec[i], y, s, L),
                     args)
        if not abs(y) <= L / 2.0:
            rec.fail("sep/too-long", "correct_separation_entry(%r) = %r exceeds L/2 = %r" % (s, y, L / 2.0), args)
        tol = 4 * Fraction(math.ulp(max(L, abs(s))))
        ok, k = congruent(s, y, L, tol)
        if not ok:
            rec.fail("sep/not-congruent", "correct_separation_entry(%r) = %r not congruent modulo %r" % (s, y, L),
                     args)
        if other is not None:
            z = other.correct_separation_entry(s, i)
            if z != y:
                rec.fail("sep/cubic-vs-cuboid", "cubic %r, cuboid %r for %r (L=%r)" % (y, z, s, L), args)
        nt = nt or k != 0 or abs(abs(s) - L / 2.0) <= 4 * math.ulp(L)
    rec.case("wrapped-or-half" if nt else "interior", (tuple(lengths), tuple(entries)), nt, args)


def body_separation(rec, cubic, lengths, ref, tgt):
    pb, other = make_setting(cubic, lengths)
    args = {"cubic": cubic, "lengths": lengths, "ref": ref, "tgt": tgt}
    sep = pb.separation_vector(list(ref), list(tgt))
    if len(sep) != len(lengths):
        rec.fail("sepvec/length", "separation vector %r has wrong dimension" % (sep,), args)
    nt = False
    for i, L in enumerate(lengths):
        y = sep[i]
        if not abs(y) <= L / 2.0:
            rec.fail("sepvec/too-long", "separation %r exceeds L/2=%r (ref %r, target %r)" % (y, L / 2.0, ref[i],
                                                                                            tgt[i]), args)
        d = Fraction(tgt[i]) - Fraction(ref[i])
        diff = d - Fraction(y)
        k = round(diff / Fraction(L))
        if abs(diff - k * Fraction(L)) > 4 * Fraction(math.ulp(max(L, abs(tgt[i]), abs(ref[i])))):
            rec.fail("sepvec/not-congruent", "separation %r of target %r and reference %r not congruent to the "
                                             "difference modulo %r" % (y, tgt[i], ref[i], L), args)
        nt = nt or k != 0 or abs(abs(float(d)) - L / 2.0) <= 4 * math.ulp(L)
    if other is not None:
        z = other.separation_vector(list(ref), list(tgt))
        if list(z) != list(sep):
            rec.fail("sepvec/cubic-vs-cuboid", "cubic %r, cuboid %r" % (sep, z), args)
    unfolded = any(not 0.0 <= q < L for q, L in zip(list(ref) + list(tgt), list(lengths) * 2))
    rec.case("unfolded" if unfolded else ("wrapped-or-half" if nt else "direct"),
             (tuple(lengths), tuple(ref), tuple(tgt)), nt, args)


def _unwrap(f):
    return lambda rec, c=None, **kw: f(rec, **(c if c is not None else kw))


CHECKS = [
    Check("wrap_position", _unwrap(body_wrap), lambda: {"c": wrap_case()}, quick=5000, thorough=15000),
    Check("wrap_separation", _unwrap(body_separation_entries), lambda: {"c": wrap_case()}, quick=4000,
          thorough=15000),
    Check("separation_vector", _unwrap(body_separation), lambda: {"c": separation_case()}, quick=4000,
          thorough=15000),
]
