"""C13 (a) - rule-based state machine over a real TreeStateHandler and a dictionary model."""
import hypothesis
from hypothesis import HealthCheck, Phase, settings, strategies as st
from hypothesis.stateful import RuleBasedStateMachine, initialize, precondition, rule, run_state_machine_as_test

from ..runner import Check, Violation, jsonable, exception_signature


def freeze(unit):
    ts = unit.time_stamp
    return (tuple(unit.position), None if unit.velocity is None else tuple(unit.velocity),
            None if ts is None else (ts.quotient, ts.remainder))


class TreeMachine(RuleBasedStateMachine):
    def __init__(self):
        super().__init__()
        self.sh = None
        self.model = {}
        self.children = {}
        self.weights = {}
        self.live = []      # list of dicts: {"root": cnode, "id": identifier, "expect": {identifier: frozen}}
        self.trace = []
        self.flags = set()
        self.overlap_mutations = 0

    def fail(self, signature, message):
        raise Violation("stateful/" + signature, message, {"trace": jsonable(self.trace)})

    @initialize(dim=st.integers(1, 3), levels=st.integers(1, 2), roots=st.integers(1, 4), kids=st.integers(1, 4),
                seed=st.integers(0, 2 ** 20))
    def build(self, dim, levels, roots, kids, seed):
        import random as _r
        import jellyfysh.setting as setting
        from jellyfysh.setting import hypercubic_setting
        from jellyfysh.base.node import Node
        from jellyfysh.base.particle import Particle
        from jellyfysh.state_handler.tree_state_handler import TreeStateHandler
        from jellyfysh.state_handler.physical_state.tree_physical_state import TreePhysicalState
        from jellyfysh.state_handler.lifting_state.tree_lifting_state import TreeLiftingState
        rng = _r.Random(seed)   # derived from a Hypothesis-drawn integer only
        setting.reset()
        hypercubic_setting.HypercubicSetting(beta=1.0, dimension=dim, system_length=1.0)
        setting.set_number_of_root_nodes(roots)
        setting.set_number_of_nodes_per_root_node(kids if levels == 2 else 1)
        setting.set_number_of_node_levels(levels)
        self.dim, self.levels, self.kids = dim, levels, kids
        nodes = []
        for r in range(roots):
            pos = [rng.random() for _ in range(dim)]
            root = Node(Particle(position=list(pos), charge={"c": float(r)}))
            self.model[(r,)] = (tuple(pos), None, None)
            self.children[(r,)] = []
            if levels == 2:
                for c in range(kids):
                    cpos = [rng.random() for _ in range(dim)]
                    root.add_child(Node(Particle(position=list(cpos), charge={"c": float(c) - 1.0})))
                    self.model[(r, c)] = (tuple(cpos), None, None)
                    self.children[(r,)].append((r, c))
                    self.children[(r, c)] = []
            nodes.append(root)
        for r in range(roots):
            self.weights[(r,)] = nodes[r].weight
            for c, ch in enumerate(nodes[r].children):
                self.weights[(r, c)] = ch.weight
        self.sh = TreeStateHandler(TreePhysicalState(), TreeLiftingState())
        self.sh.initialize(nodes)
        self.trace.append(("build", dim, levels, roots, kids, seed))

    # ------------------------------------------------------------------------------------------------ helpers
    def ids(self):
        return sorted(self.model)

    def global_view(self):
        out = {}

        def walk(cnode):
            out[cnode.value.identifier] = freeze(cnode.value)
            for ch in cnode.children:
                walk(ch)
        for root in self.sh.extract_global_state():
            walk(root)
        return out

    def check_global(self, what):
        view = self.global_view()
        if view != self.model:
            diff = [i for i in self.model if view.get(i) != self.model[i]]
            self.fail("global-state-changed", "%s: global state differs from the model for units %r: %r vs model %r"
                      % (what, diff[:3], [view.get(i) for i in diff[:3]], [self.model[i] for i in diff[:3]]))

    def branch_units(self, root_cnode):
        out = {}

        def walk(cnode):
            out[cnode.value.identifier] = cnode
            for ch in cnode.children:
                walk(ch)
        walk(root_cnode)
        return out

    def check_branches(self, what, skip=None):
        for b in self.live:
            if b is skip:
                continue
            units = self.branch_units(b["root"])
            for ident, cnode in units.items():
                if freeze(cnode.value) != b["expect"][ident]:
                    self.fail("other-branch-changed", "%s: live branch of %r changed at unit %r: %r, expected %r"
                              % (what, b["id"], ident, freeze(cnode.value), b["expect"][ident]))

    def expected_members(self, ident):
        members = {ident[:k] for k in range(1, len(ident) + 1)}
        stack = [ident]
        while stack:
            cur = stack.pop()
            members.add(cur)
            stack.extend(self.children[cur])
        return members

    def verify_branch(self, root_cnode, ident, what):
        units = self.branch_units(root_cnode)
        want = self.expected_members(ident)
        if set(units) != want:
            self.fail("branch-members", "%s for %r contains units %r, expected node + ancestors + descendants %r"
                      % (what, ident, sorted(units), sorted(want)))
        if root_cnode.value.identifier != ident[:1] or root_cnode.parent is not None:
            self.fail("branch-root", "%s for %r does not start at the root node" % (what, ident))
        for i, cnode in units.items():
            if freeze(cnode.value) != self.model[i]:
                self.fail("branch-values", "%s for %r: unit %r has %r, global state has %r"
                          % (what, ident, i, freeze(cnode.value), self.model[i]))
            if cnode.weight != self.weights[i]:
                self.fail("branch-weights", "%s: unit %r has weight %r, expected %r" % (what, i, cnode.weight,
                                                                                       self.weights[i]))
            kids = [ch.value.identifier for ch in cnode.children]
            if any(k[:-1] != i for k in kids) or any(ch.parent is not cnode for ch in cnode.children):
                self.fail("branch-structure", "%s: children of %r are %r" % (what, i, kids))

    # ------------------------------------------------------------------------------------------------ rules
    @precondition(lambda self: self.sh is not None and len(self.live) < 6)
    @rule(pick=st.integers(0, 10 ** 6))
    def extract(self, pick):
        ids = self.ids()
        ident = ids[pick % len(ids)]
        self.trace.append(("extract", ident))
        root = self.sh.extract_from_global_state(ident)
        self.verify_branch(root, ident, "extracted branch")
        expect = {i: freeze(c.value) for i, c in self.branch_units(root).items()}
        for b in self.live:
            if set(b["expect"]) & set(expect):
                self.flags.add("overlap")
        self.live.append({"root": root, "id": ident, "expect": expect, "mutated": False})
        self.check_global("extract")

    @precondition(lambda self: len(self.live) > 0)
    @rule(bpick=st.integers(0, 100), upick=st.integers(0, 100),
          how=st.sampled_from(["pos_elem", "pos_list", "move", "move", "time_update", "stop", "vel_elem", "share"]),
          x=st.floats(0.0, 0.999), q=st.integers(0, 5))
    def mutate(self, bpick, upick, how, x, q):
        from jellyfysh.base.time import Time
        b = self.live[bpick % len(self.live)]
        units = self.branch_units(b["root"])
        ident = sorted(units)[upick % len(units)]
        unit = units[ident].value
        self.trace.append(("mutate", bpick % len(self.live), ident, how, x, q))
        if how == "pos_elem":
            unit.position[q % self.dim] = x
        elif how == "pos_list":
            unit.position = [x] * self.dim
        elif how == "move":
            unit.velocity = [x + 0.5 if i == q % self.dim else 0.0 for i in range(self.dim)]
            unit.time_stamp = Time(float(q), x)
        elif how == "time_update":
            if unit.time_stamp is not None:
                unit.time_stamp.update(Time(float(q + 1), x))
        elif how == "vel_elem":
            if unit.velocity is not None:
                unit.velocity[q % self.dim] = x + 0.25
        elif how == "share":
            # several units of one branch start to move with ONE velocity list and ONE Time object (an event handler is
            # free to do that): after the commit each unit must nevertheless keep its own value in the global state
            shared_v = [x + 0.5 if i == q % self.dim else 0.0 for i in range(self.dim)]
            shared_t = Time(float(q), x)
            for other in units.values():
                other.value.velocity = shared_v
                other.value.time_stamp = shared_t
            b["shared"] = True
            self.flags.add("shared-objects")
        else:
            unit.velocity = None
            unit.time_stamp = None
        b["expect"][ident] = freeze(unit)
        if b.get("shared"):
            # units of this branch hold common objects (put there by the harness): what the branch now contains is what
            # an insert has to store
            b["expect"] = {i: freeze(cn.value) for i, cn in units.items()}
        b["mutated"] = True
        others = [o for o in self.live if o is not b and ident in o["expect"]]
        if others:
            self.overlap_mutations += 1
        self.check_global("mutation of an extracted branch")
        self.check_branches("mutation of another branch", skip=None)

    @precondition(lambda self: len(self.live) > 0)
    @rule(bpick=st.integers(0, 100))
    def insert(self, bpick):
        self.trace.append(("insert", bpick % len(self.live)))
        b = self.live.pop(bpick % len(self.live))
        self.sh.insert_into_global_state([b["root"]])
        self.model.update(b["expect"])
        if b["mutated"] and any(set(o["expect"]) & set(b["expect"]) for o in self.live):
            self.flags.add("insert-between-overlapping")
        self.check_global("insert")
        self.check_branches("insert of another branch")
        # the inserted branch is spent: it aliases the global state by design and is dropped here

    @precondition(lambda self: self.sh is not None)
    @rule()
    def extract_active(self):
        self.trace.append(("extract_active",))
        consistent = True
        expected = set()
        if self.levels == 1:
            expected = {i for i, v in self.model.items() if v[1] is not None}
        else:
            for r in [i for i in self.model if len(i) == 1]:
                moving = [c for c in self.children[r] if self.model[c][1] is not None]
                if (self.model[r][1] is not None) != bool(moving):
                    consistent = False
                if moving:
                    expected |= {r} if len(moving) == len(self.children[r]) else set(moving)
        got = self.sh.extract_active_global_state()
        if not consistent:
            self.flags.add("inconsistent-composite(skipped)")
            return
        got_ids = set()
        for root in got:
            # identifier the branch was extracted for: deepest node reached through single-child links from the root
            node = root
            units = self.branch_units(root)
            cand = [i for i in expected if set(units) == self.expected_members(i)]
            if len(cand) != 1:
                self.fail("active-branch", "active part contains a branch with units %r which matches no independently "
                          "moving unit (expected %r)" % (sorted(units), sorted(expected)))
            got_ids.add(cand[0])
            self.verify_branch(root, cand[0], "active branch")
            # branches of the active part are extracted branches like any other: keep them live so that later rules
            # mutate / insert / compare them
            if len(self.live) < 6:
                self.live.append({"root": root, "id": cand[0], "mutated": False,
                                  "expect": {i: freeze(c.value) for i, c in self.branch_units(root).items()}})
                self.flags.add("active-branch-kept")
        if got_ids != expected or len(got) != len(expected):
            self.fail("active-set", "extract_active_global_state returned %r, independently moving units are %r"
                      % (sorted(got_ids), sorted(expected)))
        if expected:
            self.flags.add("active-nonempty")
        self.check_global("extract_active")


def run_machines(rec, seed, n, tier, shard):
    steps = 60 if tier == "quick" else 100

    class Machine(TreeMachine):
        def teardown(self):
            nt = "insert-between-overlapping" in self.flags
            rec.case("+".join(sorted(self.flags)) or "plain", tuple(map(repr, self.trace)), nt,
                     {"steps": len(self.trace), "head": jsonable(self.trace[:10]), "flags": sorted(self.flags)})

    phases = [Phase.generate, Phase.shrink] if tier == "thorough" else [Phase.generate]
    try:
        run_state_machine_as_test(
            hypothesis.seed(seed)(Machine),
            settings=settings(max_examples=n, stateful_step_count=steps, deadline=None, database=None,
                              report_multiple_bugs=False, suppress_health_check=list(HealthCheck), phases=phases,
                              print_blob=False, verbosity=hypothesis.Verbosity.quiet))
    except Violation:
        raise
    except Exception as exc:
        sig = exception_signature(exc)
        if sig is None:
            raise
        raise Violation(sig, "%s: %s" % (type(exc).__name__, exc), {"note": "exception inside a state handler call"})


def replay_machine(rec, args):
    """Re-execute a recorded step sequence without Hypothesis."""
    m = TreeMachine()
    for step in args["trace"]:
        op = step[0]
        if op == "build":
            m.build(*step[1:])
        elif op == "extract":
            m.extract(m.ids().index(tuple(step[1])))
        elif op == "mutate":
            units = sorted(m.branch_units(m.live[step[1]]["root"]))
            m.mutate(step[1], units.index(tuple(step[2])), step[3], step[4], step[5])
        elif op == "insert":
            m.insert(step[1])
        elif op == "extract_active":
            m.extract_active()


CHECKS = [Check("stateful", custom=run_machines, replay=replay_machine, quick=500, thorough=5000, quick_shards=8, thorough_shards=16)]
