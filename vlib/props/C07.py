"""C07 - history property decided by the monitor (vlib/monitor.py) on instrumented runs of shipped and generated
configurations (vlib/configs.py, vlib/engine.py)."""
from ..configs import config_case
from ..runner import Check
from ._history import run_history

PROPERTY = "C07"
RULE = "Hypothesis draws a configuration (16 runnable shipped files, 3 of 4 draws with generated parameter edits: N up to 6, box, beta, chain/sampling times, grid, cap, scheduler, speed, direction), a seed and an event budget (300-1500 quick); the real mediator loop runs under the monitor. Oracle per commit: event time >= previous; every unit's trajectory is continuous at the event time (position advanced from its own time stamp, modulo the box, 1e-9 L); resting units bit-identical; after the start-of-run event one velocity, configured speed, one point mass or all point masses of one object; 0<=x<L; identities/weights/charges unchanged. Non-trivial: history with >=1 lifting and >=1 end of chain; distinct by (config, edits, seed, budget)."
ASSUMPTIONS = ["configurations are the runnable shipped .ini files verbatim, or shipped files with parameter edits "
               "only (particle number with number_event_handlers scaled, box, beta, chain/sampling times, grids, "
               "scheduler, speed, initial direction); generated wirings are limited to the families G4-G7 derived from "
               "shipped files (DESIGN.md 8.5) and to a second sampling tagger copied from the shipped one",
               "observation by wrapping instance attributes of state handler, scheduler, activator, input-output "
               "handler and event handlers; private reads: Mediator._state_handler/_scheduler/_activator/"
               "_input_output_handler, Activator._taggers/_internal_states"]
NT = lambda m: m.stats['liftings'] >= 1 and m.stats['commit/end_of_chain'] >= 1
KW = {}


def body(rec, c):
    run_history(rec, PROPERTY, c, NT)


CHECKS = [Check("history", body, lambda: {"c": config_case(**KW)}, quick=10, thorough=160, quick_shards=16,
                thorough_shards=16, shrink_quick=False)]

from . import C07_slice  # noqa: E402  (helper part: the shared time-slicing helper on directly drawn units)
CHECKS = CHECKS + C07_slice.CHECKS
RULE += (" Sub-check time_slice_helper: BasicEventHandler._time_slice_all_units_in_state on directly drawn units (positions "
         "incl. exactly 0.0 and the largest float below L, velocity components incl. the 1e-17..1e-13 residues of rotations "
         "by multiples of 90 degrees, time displacements over twelve decades); oracle (Fractions): every coordinate in "
         "[0, L) and congruent to p + v*dt modulo L, resting units untouched, time stamp == event time.")

from . import C07_eoc  # noqa: E402  (handler part: end-of-chain out-states in point-mass and molecule mode, 2-D and 3-D)
CHECKS = CHECKS + C07_eoc.CHECKS
RULE += (" Sub-check end_of_chain_out_state: the periodic-direction (3-D) and sequential-direction (2-D) end-of-chain "
         "handlers on directly drawn branches in point-mass and molecule mode; after the event every moving point mass "
         "has the chain's speed and the event time, an object's velocity is the weighted sum of its point masses', "
         "positions stay in the box.")
