"""C11 (direct part) - the cell-occupancy bookkeeping driven leg by leg, without a run.

A generated population (several units per cell, occupant caps, signed/zero charges with a charge filter, point masses
or whole objects in cells) lives in a real TreeStateHandler; a generated sequence of legs moves the active unit inside
its cell, carries it across a cell wall in either direction (also through the periodic wall - where a cell-boundary
event would put it: exactly on the neighbour's lower or upper limit) or hands the activity to another unit (occupant
or surplus unit of the same cell, a unit elsewhere, a filtered-out unit).  After every leg `update` is called as the
activator does and the recorded view is compared with the positions.

Oracle = the statement of C11: every relevant non-active unit exactly once, in the occupant or surplus list *of the
cell containing its position*; the active unit in neither list, recorded with the cell containing its position; caps
respected; filtered-out units nowhere.  (The surplus lists are read from the private `_surplus` dictionary, because
the public `yield_surplus` does not tell the cell.)"""
import math
from collections import Counter

from hypothesis import strategies as st

from .. import gen
from ..runner import Check
from . import C10

PROPERTY = "C11"


@st.composite
def occupancy_case(draw):
    c = draw(C10.cell_case())
    c["whole_object"] = False
    if draw(st.booleans()):
        # crowd: every unit in one of two neighbouring cells, so that surplus lists are long
        n_units = len(c["coords"])
        per, lengths = c["per_side"], c["lengths"]
        base = [draw(st.integers(0, n - 1)) for n in per]
        coords = []
        for _ in range(n_units):
            p = []
            for axis, (L, n) in enumerate(zip(lengths, per)):
                side = L / n
                k = (base[axis] + (draw(st.integers(0, 1)) if axis == 0 else 0)) % n
                x = side * (k + draw(gen.floats(0.05, 0.95)))
                p.append(min(max(x, 0.0), math.nextafter(L, 0.0)))
            coords.append(p)
        c["coords"] = coords
        c["placement"] = "crowd"
    if c["use_charge"]:
        c["charges"] = [draw(st.sampled_from([0.0, 1.0, -1.0, -1.0, 2.0, -0.5])) for _ in c["charges"]]
    n_units = len(c["coords"])
    ops = []
    for _ in range(draw(st.integers(3, 14))):
        kind = draw(st.sampled_from(["inside", "cross", "cross", "switch", "switch", "switch_same_cell"]))
        if kind == "inside":
            ops.append(["inside", [draw(gen.floats(0.02, 0.98)) for _ in range(c["dim"])]])
        elif kind == "cross":
            ops.append(["cross", draw(st.integers(0, c["dim"] - 1)), draw(st.booleans())])
        elif kind == "switch":
            ops.append(["switch", draw(st.integers(0, n_units - 1))])
        else:
            ops.append(["switch_same_cell", draw(st.integers(0, 10 ** 6))])
    c["ops"] = ops
    return c


def _on_level(ident, level):
    return ident if len(ident) == level else ident[:level]


def body_occupancy(rec, **c):
    from jellyfysh.activator.internal_state.cell_occupancy.cells.cuboid_periodic_cells import CuboidPeriodicCells
    from jellyfysh.activator.internal_state.single_active_cell_occupancy import SingleActiveCellOccupancy
    ops = c["ops"]
    cc = {k: v for k, v in c.items() if k != "ops"}
    sh, leaf_ids = C10.build_state(cc)
    cells = CuboidPeriodicCells(cells_per_side=list(c["per_side"]), neighbor_layers=c["layers"])
    level = c["cell_level"]
    occ = SingleActiveCellOccupancy(cells=cells, cell_level=level, maximum_number_occupants=c["cap"],
                                    charge="q" if c["use_charge"] else None)
    occ.initialize(sh.extract_global_state())
    charge_of = {ident: c["charges"][i] for i, ident in enumerate(leaf_ids)}
    relevant = []
    seen_roots = set()
    for i, ident in enumerate(leaf_ids):
        if level == len(ident):
            if not c["use_charge"] or c["charges"][i] != 0.0:
                relevant.append(ident)
        elif ident[:1] not in seen_roots:
            seen_roots.add(ident[:1])
            relevant.append(ident[:1])
    relevant_set = set(relevant)

    def position(ident):
        node = sh.extract_from_global_state(ident)
        while node.value.identifier != ident:
            node = node.children[0]
        return list(node.value.position)

    def compare(step, what):
        listed = Counter()
        where = {}
        for cell in cells.yield_cells():
            occupants = list(occ[cell])
            if c["cap"] > 0 and len(occupants) > c["cap"]:
                rec.fail("occupancy/over-capacity", "leg %d (%s): cell %r lists %d occupants %r, limit %d"
                         % (step, what, cell.identifier, len(occupants), occupants, c["cap"]), c)
            for uid in occupants:
                listed[uid] += 1
                where[uid] = cell
        for cell, uids in occ._surplus.items():
            if not uids:
                rec.fail("occupancy/empty-surplus-list", "leg %d (%s): cell %r keeps an empty surplus list"
                         % (step, what, cell.identifier), c)
            for uid in uids:
                listed[uid] += 1
                where[uid] = cell
        if Counter(occ.yield_surplus()) != Counter(u for us in occ._surplus.values() for u in us):
            rec.fail("occupancy/yield-surplus", "yield_surplus differs from the surplus lists", c)
        active = list(occ.yield_active_cells())
        want_active = _on_level(active_ident, level)
        if want_active in relevant_set:
            if len(active) != 1 or active[0][1] != want_active:
                rec.fail("occupancy/active-unit", "leg %d (%s): recorded active units %r, the moving unit on the cell "
                         "level is %r" % (step, what, [(a.identifier, b) for a, b in active], want_active), c)
            else:
                real = cells.position_to_cell(position(want_active))
                if real is not active[0][0]:
                    rec.fail("occupancy/active-wrong-cell", "leg %d (%s): active unit %r at %r recorded in cell %r, lies "
                             "in %r" % (step, what, want_active, position(want_active), active[0][0].identifier,
                                        real.identifier), c)
            if listed[want_active]:
                rec.fail("occupancy/active-also-listed", "leg %d (%s): the active unit %r also appears in a list"
                         % (step, what, want_active), c)
        elif active:
            rec.fail("occupancy/filtered-active-recorded", "leg %d (%s): the active unit %r is filtered out but %r is "
                     "recorded as active" % (step, what, want_active, [(a.identifier, b) for a, b in active]), c)
        for uid in relevant:
            if uid == want_active:
                continue
            if listed[uid] != 1:
                rec.fail("occupancy/not-exactly-once", "leg %d (%s): unit %r is recorded %d times"
                         % (step, what, uid, listed[uid]), c)
                continue
            real = cells.position_to_cell(position(uid))
            if real is not where[uid]:
                rec.fail("occupancy/wrong-cell", "leg %d (%s): unit %r at %r is listed for cell %r but lies in %r"
                         % (step, what, uid, position(uid), where[uid].identifier, real.identifier), c)
        for uid in listed:
            if uid not in relevant_set:
                rec.fail("occupancy/irrelevant-listed", "leg %d (%s): unit %r is listed but filtered out"
                         % (step, what, uid), c)

    def move_active(new_position_of_level_unit):
        """Move the active branch rigidly so that the unit on the cell level lands on the given position."""
        target = active_target
        branch = sh.extract_from_global_state(target)
        unit_on_level = branch
        while len(unit_on_level.value.identifier) < level and unit_on_level.children:
            unit_on_level = unit_on_level.children[0]
        old = list(unit_on_level.value.position)
        shift = [n - o for n, o in zip(new_position_of_level_unit, old)]

        def walk(n):
            if n is unit_on_level:
                n.value.position = list(new_position_of_level_unit)
            else:
                n.value.position = [(p + s) % L if 0.0 <= (p + s) % L < L else 0.0
                                    for p, s, L in zip(n.value.position, shift, c["lengths"])]
            for ch in n.children:
                walk(ch)
        walk(branch)
        sh.insert_into_global_state([branch])

    flags = set()
    active_index = c["active"]
    active_ident = leaf_ids[active_index]
    active_target = C10.activate(sh, dict(cc, active=active_index), leaf_ids)
    occ.update(sh.extract_active_global_state())
    compare(0, "initial activation of %r" % (active_ident,))
    for step, op in enumerate(ops, 1):
        level_ident = _on_level(active_ident, level)
        if op[0] in ("inside", "cross"):
            pos = position(level_ident)
            cell = cells.position_to_cell(pos)
            if op[0] == "inside":
                new = [lo + f * (hi - lo) for f, lo, hi in zip(op[1], cell.cell_min, cell.cell_max)]
                what = "move inside cell %r" % (cell.identifier,)
            else:
                axis, up = op[1], op[2]
                neighbour = cells.neighbor_cell(cell, axis, up)
                new = list(pos)
                new[axis] = neighbour.cell_min[axis] if up else neighbour.cell_max[axis]
                what = "crossing %s along axis %d into cell %r" % ("up" if up else "down", axis, neighbour.identifier)
                flags.add("cross-up" if up else "cross-down")
                if (up and neighbour.cell_min[axis] < cell.cell_min[axis]) or (
                        not up and neighbour.cell_max[axis] > cell.cell_max[axis]):
                    flags.add("periodic-wall")
            move_active(new)
        else:
            if op[0] == "switch":
                new_index = op[1]
            else:
                # another unit on the cell level that currently shares the active unit's cell (occupant or surplus)
                here = cells.position_to_cell(position(level_ident))
                mates = [i for i, ident in enumerate(leaf_ids)
                         if _on_level(ident, level) != level_ident and _on_level(ident, level) in relevant_set
                         and cells.position_to_cell(position(_on_level(ident, level))) is here]
                if not mates:
                    continue
                new_index = mates[op[1] % len(mates)]
                target_level = _on_level(leaf_ids[new_index], level)
                flags.add("to-surplus-mate" if target_level in occ._surplus.get(here, []) else "to-occupant-mate")
            if new_index == active_index:
                continue
            C10.deactivate(sh, active_target)
            active_index = new_index
            active_ident = leaf_ids[active_index]
            active_target = C10.activate(sh, dict(cc, active=active_index), leaf_ids)
            what = "activity handed to %r" % (active_ident,)
            flags.add("switch")
            if _on_level(active_ident, level) not in relevant_set:
                flags.add("to-filtered-unit")
        occ.update(sh.extract_active_global_state())
        if occ._surplus:
            flags.add("surplus")
        compare(step, what)
    nt = "switch" in flags and ("cross-up" in flags or "cross-down" in flags) and "surplus" in flags
    rec.case("+".join(sorted(flags)) or "plain", tuple(sorted((k, repr(v)) for k, v in c.items())), nt,
             {"grid": c["per_side"], "cap": c["cap"], "cell_level": level, "levels": c["levels"],
              "filter": c["use_charge"], "units": len(relevant), "legs": len(ops), "flags": sorted(flags)})


CHECKS = [Check("occupancy_legs", lambda rec, c=None, **kw: body_occupancy(rec, **(c if c is not None else kw)),
                lambda: {"c": occupancy_case()}, quick=250, thorough=3000, quick_shards=8, thorough_shards=16)]
