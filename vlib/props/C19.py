"""C19 - a dumped run resumes to exactly the run that was never interrupted.

Differential between fresh processes: run A (with a dumping tagger wired as in the shipped power_bounded_dump.ini),
run B_k resumed from every dump k through the real jellyfysh.resume.main, and run A' without dumping."""
import json
import os
import re
import shutil
import subprocess
import sys
import tempfile

from hypothesis import strategies as st

from .. import build, configs, engine, monitor
from ..build import HarnessError
from ..runner import Check

PROPERTY = "C19"
RULE = ("Hypothesis draws a shipped configuration (Coulomb atoms power-bounded / cell-bounded / cell-veto, dipoles incl. "
        "cell systems and mode switching, water, hard-disk dipole; heap or list scheduler; optional parameter edits), a "
        "seed, a number of dumps 3..6 and an event target; a dumping tagger is added exactly as in the shipped "
        "power_bounded_dump.ini and the dumping interval is set from a calibrated event rate. Fresh subprocesses run "
        "jellyfysh.run.main (A, and A' without dumping) and jellyfysh.resume.main on every dump (B_k) under class-level "
        "recorders. Oracle: the sequence of (returned handler class, candidate time as float.hex, digest of the full "
        "global state) and of written samples of B_k equals A's suffix after dump k; A without its dumping events "
        "equals A'. Non-trivial: a dump resumed for >= 150 records with >= 1 change of the active unit; distinct by "
        "(config, edits, seed, dump index).")
ASSUMPTIONS = ["recorders patch only non-Initializer classes at class level (HeapScheduler, ListScheduler, "
               "InputOutputHandler, DumpingOutputHandler, SingleProcessMediator.run), so nothing of the harness is "
               "pickled; candidate times are read from Scheduler._last_returned_event (private)",
               "the dumping wiring added to a shipped file copies power_bounded_dump.ini: tagger with create/trash = "
               "dumping, listed in the start-of-run create list and the end-of-run trash list"]

SHIPPED_DUMP = "2018_JCP_149_064113/coulomb_atoms/power_bounded_dump.ini"
BASES = [
    SHIPPED_DUMP,
    SHIPPED_DUMP,
    "2018_JCP_149_064113/coulomb_atoms/power_bounded.ini",
    "2018_JCP_149_064113/coulomb_atoms/cell_bounded.ini",
    "2018_JCP_149_064113/coulomb_atoms/cell_veto.ini",
    "2018_JCP_149_064113/dipoles/dipole_factors_inside_first.ini",
    "2018_JCP_149_064113/dipoles/dipole_factors_ratio.ini",
    "2018_JCP_149_064113/dipoles/dipole_motion.ini",
    "2018_JCP_149_064113/dipoles/atom_factors.ini",
    "2018_JCP_149_064113/dipoles/cell_bounded.ini",
    "2018_JCP_149_064113/dipoles/cell_veto.ini",                       # cell-veto tables from a *sampling* estimator
    "2018_JCP_149_064113/dipoles/dipole_factors_outside_first.ini",
    "2018_JCP_149_064113/water/coulomb_cell_veto_lj_inverted.ini",
    "2018_JCP_149_064113/water/coulomb_power_bounded_lj_inverted.ini",
    "2018_JCP_149_064113/water/single_molecule.ini",
    "hard_disk_dipoles/single_hard_disk_dipole.ini",
]


def add_dumping(text, interval):
    """Wire a dumping tagger into an ini text the way power_bounded_dump.ini does."""
    taggers = configs.get_option(text, "TagActivator", "taggers")
    # multi-line value: collect it
    m = re.search(r"^\[TagActivator\]\s*\ntaggers\s*=\s*((?:\n[ \t]+.*)+)", text, flags=re.M)
    if not m:
        raise HarnessError("cannot find the tagger list")
    block = m.group(1).rstrip()
    text = text.replace(block, block + ",\n    dumping (no_in_state_tagger)", 1)
    for section, option in (("StartOfRun", "create"), ("EndOfRun", "trash")):
        val = configs.get_option(text, section, option)
        text = configs.set_option(text, section, option, val + ", dumping")
    out = configs.get_option(text, "InputOutputHandler", "output_handlers")
    text = configs.set_option(text, "InputOutputHandler", "output_handlers", out + ", dumping_output_handler")
    text += ("\n[Dumping]\ncreate = dumping\ntrash = dumping\nevent_handler = fixed_interval_dumping_event_handler\n"
             "\n[FixedIntervalDumpingEventHandler]\ndumping_interval = %r\noutput_handler = dumping_output_handler\n"
             "\n[DumpingOutputHandler]\nfilename = dump.dat\n" % interval)
    return text


def localise(text):
    """Input files absolute inside the scratch package, output files as plain names in the working directory."""
    package_dir = os.path.join(build.scratch_root(), "jellyfysh")
    out = []
    for line in text.splitlines():
        m = re.match(r"^filename\s*=\s*(.*)$", line)
        if m:
            value = m.group(1).strip()
            if value == "dump.dat":
                pass
            elif os.path.exists(os.path.join(package_dir, value)) and not value.startswith("output"):
                line = "filename = " + os.path.join(package_dir, value)
            else:
                line = "filename = " + os.path.basename(value)
        out.append(line)
    return "\n".join(out) + "\n"


@st.composite
def dump_case(draw):
    base = draw(st.sampled_from(BASES))
    text = configs.shipped_text(base)
    edits = []
    if draw(st.booleans()):
        edits.append(["SingleProcessMediator", "scheduler", draw(st.sampled_from(["heap_scheduler", "list_scheduler"]))])
    if draw(st.booleans()):
        edits.append(["HypercubicSetting", "beta", repr(draw(st.sampled_from([0.5, 1.0, 2.0])))])
    for sec, val in configs.sections_with(text, "chain_time"):
        if draw(st.booleans()):
            edits.append([sec, "chain_time", repr(round(draw(st.floats(0.1, 2.0)), 5))])
    n_shipped = int(configs.sections_with(text, "number_of_root_nodes")[0][1])
    if n_shipped >= 2 and draw(st.booleans()):
        N = draw(st.integers(3, 6 if "coulomb_atoms" in base else 3))
        edits.append(["RandomInputHandler", "number_of_root_nodes", str(N)])
        for sec, val in configs.sections_with(text, "number_event_handlers"):
            edits.append([sec, "number_event_handlers", str(int(val) * (N - 1))])
        for sec, val in configs.sections_with(text, "cells_per_side"):
            # (grids must keep more than 2*neighbor_layers+1 cells on one axis; the water files use 2 layers)
            if configs.get_option(text, sec, "neighbor_layers", "1").strip() == "1" and draw(st.booleans()):
                edits.append([sec, "cells_per_side", "3, 3, 4"])   # small grid: several units per nearby region
    return {"base": base, "edits": edits, "seed": draw(st.integers(0, 2 ** 31)), "dumps": draw(st.integers(3, 6)),
            "events": draw(st.integers(500, 1200)), "phase": round(draw(st.floats(0.05, 0.95)), 3)}


def worker(args, scratch):
    env = dict(os.environ)
    env["VERIF_SCRATCH"] = scratch
    here = os.path.dirname(os.path.dirname(os.path.dirname(os.path.abspath(__file__))))
    env["PYTHONPATH"] = here + os.pathsep + os.path.join(here, ".deps")
    return subprocess.Popen([sys.executable, "-m", "vlib.dump_worker"] + [str(a) for a in args], env=env,
                            stdout=subprocess.PIPE, stderr=subprocess.PIPE, text=True, cwd=here)


def read_log(path):
    recs = []
    with open(path) as f:
        for line in f:
            recs.append(json.loads(line))
    return recs


def body(rec, c):
    scratch = build.scratch_root()
    shipped_dump = c["base"] == SHIPPED_DUMP
    # the shipped dump example is run with its own dumping wiring (only interval and end time are set); its counterpart
    # without dumping is the shipped power_bounded.ini it was derived from
    plain_base = "2018_JCP_149_064113/coulomb_atoms/power_bounded.ini" if shipped_dump else c["base"]
    text = configs.materialise({"base": plain_base, "edits": [tuple(e) for e in c["edits"]]})
    # calibrate the event rate in process (not part of the comparison)
    mon = monitor.HistoryMonitor()
    engine.run(configs.set_option(text, "FinalTimeEndOfRunEventHandler", "end_of_run_time", "100000.0"), c["seed"],
               200, mon)
    t200 = (mon.last_commit_time[0] + mon.last_commit_time[1]) if mon.last_commit_time else 1.0
    rate = 200.0 / max(t200, 1e-9)
    end = round(c["events"] / rate, 6)
    interval = round(end / (c["dumps"] + c["phase"]), 9)
    if not interval > 0.0 or not end > 0.0:
        rec.exclude("degenerate calibration")
        return
    plain = configs.set_option(text, "FinalTimeEndOfRunEventHandler", "end_of_run_time", repr(end))
    if shipped_dump:
        dumped = configs.materialise({"base": SHIPPED_DUMP, "edits": [tuple(e) for e in c["edits"]]})
        dumped = configs.set_option(dumped, "FinalTimeEndOfRunEventHandler", "end_of_run_time", repr(end))
        dumped = configs.set_option(dumped, "FixedIntervalDumpingEventHandler", "dumping_interval", repr(interval))
    else:
        dumped = add_dumping(plain, interval)
    work = tempfile.mkdtemp(prefix="jfdump_")
    try:
        with open(os.path.join(work, "a.ini"), "w") as f:
            f.write(localise(dumped))
        with open(os.path.join(work, "p.ini"), "w") as f:
            f.write(localise(plain))
        pa = worker(["run", os.path.join(work, "a.ini"), c["seed"], os.path.join(work, "A"), 0], scratch)
        pp = worker(["run", os.path.join(work, "p.ini"), c["seed"], os.path.join(work, "P"), 0], scratch)
        oa, ea = pa.communicate()
        op, ep = pp.communicate()
        if pa.returncode != 0 or pp.returncode != 0:
            err = (ea if pa.returncode else ep)[-1500:]
            sig = "run-failed"
            m = re.findall(r'File ".*?jellyfysh/(.*?)", line \d+, in (\w+)', err)
            last = re.findall(r"^(\w+(?:Error|Exception)\b.*)$", err, flags=re.M)
            if m:
                sig = "exception:%s@%s:%s" % ((last[-1].split(":")[0] if last else "Error"), m[-1][0], m[-1][1])
            rec.fail(sig, "run with dumping wiring failed: %s" % err[-600:], c)
            return
        A = read_log(os.path.join(work, "A", "log.jsonl"))
        P = read_log(os.path.join(work, "P", "log.jsonl"))
        dumps = [r for r in A if r[0] == "dump"]
        a_records = [r for r in A if r[0] in ("get", "write")]
        # position of each dump in the record sequence
        dump_pos = {}
        n = 0
        for r in A:
            if r[0] in ("get", "write"):
                n += 1
            elif r[0] == "dump":
                dump_pos[r[1]] = n
        # second part: A minus dumping events == A'
        a_nodump = [r for r in a_records if not (r[0] == "get" and "Dumping" in r[1])]
        p_records = [r for r in P if r[0] in ("get", "write")]
        if a_nodump != p_records:
            i = next((j for j, (x, y) in enumerate(zip(a_nodump, p_records)) if x != y), min(len(a_nodump),
                                                                                             len(p_records)))
            tie = tie_order(a_nodump[i:i + 1], p_records[i:i + 1])
            rec.fail("dumping-changes-run" + ("/tie-order" if tie else ""),
                     "the run with dumps deviates from the same run without dumping at record %d: "
                     "%r vs %r (lengths %d / %d)" % (i, a_nodump[i:i + 1], p_records[i:i + 1], len(a_nodump),
                                                     len(p_records)), c)
            if tie:
                return      # the two runs are different histories from here on; nothing further to compare
        if not dumps:
            rec.exclude("no dump written")
            return
        limit = 400
        procs = []
        for d in dumps:
            k = d[1]
            procs.append((k, worker(["resume", os.path.join(work, "A", "dump_%d.bin" % k),
                                     os.path.join(work, "B%d" % k), limit], scratch)))
        for k, p in procs:
            o, e = p.communicate()
            if p.returncode != 0:
                rec.fail("resume-failed", "resuming dump %d failed: %s" % (k, e[-800:]), dict(c, dump=k))
                continue
            B = [r for r in read_log(os.path.join(work, "B%d" % k, "log.jsonl")) if r[0] in ("get", "write")]
            suffix = a_records[dump_pos[k]:]
            want_len = min(len(suffix), limit)
            gets_b = sum(1 for r in B if r[0] == "get")
            if gets_b < min(limit, sum(1 for r in suffix if r[0] == "get")):
                rec.fail("resume-short", "resumed run %d produced %d events, the original continued for %d"
                         % (k, gets_b, sum(1 for r in suffix if r[0] == "get")), dict(c, dump=k))
                continue
            m = min(len(B), len(suffix))
            if B[:m] != suffix[:m]:
                i = next(j for j in range(m) if B[j] != suffix[j])
                rec.fail("resume-diverges" + ("/tie-order" if tie_order([B[i]], [suffix[i]]) else ""),
                         "resumed from dump %d (of %d) the run deviates at record %d after the dump: "
                         "resumed %r, original %r" % (k, len(dumps), i, B[i], suffix[i]), dict(c, dump=k))
                continue
            movers = [r[3].split(":")[1] + r[3][:6] for r in B if r[0] == "get"]
            changes = sum(1 for x, y in zip(movers, movers[1:]) if x != y)
            handler_changes = len({r[1] for r in B if r[0] == "get"})
            nt = gets_b >= 150 and handler_changes >= 2
            rec.case("%s/dump%d" % (c["base"].split("/")[-1].replace(".ini", ""), min(k, 3)),
                     (c["base"], tuple(map(tuple, c["edits"])), c["seed"], k), nt,
                     {"base": c["base"], "edits": c["edits"], "seed": c["seed"], "dump": k, "of": len(dumps),
                      "records_compared": m, "end_time": end, "dumping_interval": interval,
                      "first_records": B[:2]})
    finally:
        shutil.rmtree(work, ignore_errors=True)


def tie_order(x, y):
    """The first deviating records are two *different* handlers returned at the bit-identical time: the two runs
    resolved a tie between simultaneous candidate events differently (recorded finding, see known_findings.json)."""
    return (len(x) == 1 and len(y) == 1 and x[0][0] == "get" and y[0][0] == "get" and x[0][2] == y[0][2]
            and x[0][1] != y[0][1])


CHECKS = [Check("dump_resume", body, lambda: {"c": dump_case()}, quick=3, thorough=70, quick_shards=12,
                thorough_shards=16, shrink_quick=False)]
