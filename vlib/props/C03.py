"""C03 - reported event rates are the directional derivative of the model energy.

Oracles: analytic gradients of independently written energies (vlib/oracles/energies.py), an independent Ewald
lattice sum with a different splitting parameter (vlib/oracles/ewald.py), finite differences of the oracle energy for
the bending potential, and metamorphic relations on the code alone."""
import copy
import math
import pickle

from hypothesis import strategies as st

from .. import gen
from ..build import HarnessError
from ..oracles import energies
from ..runner import Check
from .C02 import init_cubic

PROPERTY = "C03"
RULE = ("Hypothesis draws a potential (InversePower, LennardJones, DisplacedEvenPower, periodic 1/r bound, merged-image "
        "Coulomb, Bending), parameters, charges, speed, direction and a separation: uniform in the minimum-image "
        "cube, within 1e-6 L of a face / edge / the origin, on an axis, and axis permutations; L in {1,0.37,2.5,10}. "
        "Oracle: derivative == speed*c1c2*(-dU/ds_d) with U from the independent energies / Ewald sum (rel 1e-10, "
        "lattice sum rel 1e-10 + 1e-10/L^2), plus metamorphic relations: linear in speed and charge product, odd in "
        "s_d, even in the other components, lattice periodicity, direction d == direction 0 on the cyclic "
        "permutation, independence of the Ewald parameters, deepcopy/pickle bit-identical; bending: three "
        "derivatives sum to zero and match central differences of the oracle energy. Non-trivial: |s_d| > 1e-3|s| "
        "with >= 2 non-zero components, or a face/edge/origin case; distinct by all drawn arguments.")
ASSUMPTIONS = ["separations are non-zero minimum-image vectors; velocities positive and axis-parallel (asserted by the "
               "code)", "oracle energies/gradients written from the docstrings; the Ewald oracle is tied to its own "
               "energy by Richardson central differences and to alpha-independence at start-up (exit 2 otherwise)"]

_ewald_checked = {"done": False}


def ensure_ewald():
    from ..oracles import ewald
    if not _ewald_checked["done"]:
        wa, wf = ewald.self_check()
        if wa > 1e-11 or wf > 1e-7:
            raise HarnessError("Ewald oracle self-check failed: alpha dependence %.2e, finite-difference gap %.2e"
                               % (wa, wf))
        _ewald_checked["done"] = True
    return ewald


def close(a, b, rel, abs_=0.0):
    return abs(a - b) <= rel * max(abs(a), abs(b)) + abs_


# ------------------------------------------------------------------------------------------------- closed forms

@st.composite
def closed_case(draw):
    kind = draw(st.sampled_from(["inverse_power", "lennard_jones", "displaced_even_power", "coulomb_bound"]))
    dim = 3 if kind == "coulomb_bound" else draw(st.sampled_from([1, 2, 3, 3]))
    c = {"kind": kind, "dim": dim, "speed": draw(st.one_of(st.just(1.0), gen.log_uniform(1e-3, 1e3))),
         "direction": draw(st.integers(0, dim - 1))}
    if kind in ("inverse_power", "coulomb_bound"):
        c["power"] = 1.0 if kind == "coulomb_bound" else draw(st.sampled_from([1.0, 2.0, 6.0, 12.0, 0.5, 3.7]))
        c["k"] = draw(st.one_of(st.just(1.0), st.just(1.5837), gen.log_uniform(1e-2, 1e2))) * (
            1.0 if kind == "coulomb_bound" else draw(st.sampled_from([1.0, -1.0])))
        c["c1"] = draw(st.sampled_from([1.0, -1.0, 2.0, -0.5, 0.3]))
        c["c2"] = draw(st.sampled_from([1.0, -1.0, 2.0, -0.5, 1.7]))
        ref = 1.0
    elif kind == "lennard_jones":
        c["k"] = draw(st.one_of(st.just(1.0), gen.log_uniform(1e-2, 1e2)))
        c["sigma"] = draw(st.one_of(st.just(1.0), gen.log_uniform(0.05, 5.0)))
        ref = c["sigma"]
    else:
        c["k"] = draw(st.one_of(st.just(1.0), gen.log_uniform(1e-2, 1e2)))
        c["power"] = draw(st.sampled_from([2, 4, 6]))
        c["r0"] = draw(st.one_of(st.just(1.0), gen.log_uniform(0.05, 5.0)))
        ref = c["r0"]
    shape = draw(st.sampled_from(["generic", "generic", "on_axis", "tangential", "tiny", "large"]))
    scale = ref * {"tiny": 1e-3, "large": 30.0}.get(shape, draw(gen.floats(0.2, 3.0)))
    s = [draw(gen.floats(-1.0, 1.0)) * scale for _ in range(dim)]
    d = c["direction"]
    if shape == "on_axis":
        s = [0.0 if i != d else (s[i] or scale) for i in range(dim)]
    if shape == "tangential" and dim > 1:
        s[d] = draw(st.sampled_from([0.0, 1e-12 * scale, -1e-12 * scale]))
    if math.hypot(*s) < 1e-6 * scale:
        s[(d + 1) % dim] = scale
        if dim == 1:
            s[0] = scale
    c["separation"], c["shape"] = s, shape
    return c


def make_closed(c):
    if c["kind"] == "inverse_power":
        from jellyfysh.potential.inverse_power_potential import InversePowerPotential
        return InversePowerPotential(power=c["power"], prefactor=c["k"]), (c["c1"], c["c2"])
    if c["kind"] == "coulomb_bound":
        init_cubic(1.0)
        from jellyfysh.potential.inverse_power_coulomb_bounding_potential import InversePowerCoulombBoundingPotential
        return InversePowerCoulombBoundingPotential(prefactor=c["k"]), (c["c1"], c["c2"])
    if c["kind"] == "lennard_jones":
        from jellyfysh.potential.lennard_jones_potential import LennardJonesPotential
        return LennardJonesPotential(prefactor=c["k"], characteristic_length=c["sigma"]), ()
    from jellyfysh.potential.displaced_even_power_potential import DisplacedEvenPowerPotential
    return DisplacedEvenPowerPotential(equilibrium_separation=c["r0"], power=c["power"], prefactor=c["k"]), ()


def oracle_grad(c, s, d):
    """dU/ds_d of the model energy"""
    if c["kind"] in ("inverse_power", "coulomb_bound"):
        return energies.inverse_power_grad(c["k"], c["power"], c["c1"] * c["c2"], s, d)
    if c["kind"] == "lennard_jones":
        return energies.lennard_jones_grad(c["k"], c["sigma"], s, d)
    return energies.displaced_even_power_grad(c["k"], c["r0"], c["power"], s, d)


def oracle_energy(c, s):
    if c["kind"] in ("inverse_power", "coulomb_bound"):
        return energies.inverse_power(c["k"], c["power"], c["c1"] * c["c2"], s)
    if c["kind"] == "lennard_jones":
        return energies.lennard_jones(c["k"], c["sigma"], s)
    return energies.displaced_even_power(c["k"], c["r0"], c["power"], s)


def body_closed(rec, **c):
    pot, charges = make_closed(c)
    d, s, speed, dim = c["direction"], c["separation"], c["speed"], c["dim"]
    v = [0.0] * dim
    v[d] = speed
    got = pot.derivative(v, list(s), *charges)
    want = -oracle_grad(c, s, d) * speed
    mag = abs(want)
    # near-tangential separations: the derivative itself is tiny relative to |grad U|; allow rounding of s_d/|s|
    gscale = speed * max(abs(oracle_grad(c, s, i)) for i in range(dim))
    if not close(got, want, 1e-10, 1e-13 * gscale):
        rec.fail("%s/value" % c["kind"], "derivative %r, directional derivative of the model energy %r (separation "
                 "%r, direction %d)" % (got, want, s, d), c)
    # tie the oracle gradient to the oracle energy (finite differences; harness self-consistency)
    h = 1e-6 * math.hypot(*s)
    sp, sm = list(s), list(s)
    sp[d] += h
    sm[d] -= h
    fd = (oracle_energy(c, sp) - oracle_energy(c, sm)) / (2 * h)
    if not close(fd, oracle_grad(c, s, d), 1e-4, 1e-6 * gscale / speed
                 + 1e-7 * (abs(c["k"]) + abs(oracle_energy(c, s))) / math.hypot(*s)):
        raise HarnessError("oracle gradient inconsistent with oracle energy: %r vs %r for %r" % (
            fd, oracle_grad(c, s, d), c))
    # metamorphic relations on the code alone
    v2 = [0.0] * dim
    v2[d] = 2.5 * speed
    got2 = pot.derivative(v2, list(s), *charges)
    if not close(got2, 2.5 * got, 1e-13, 1e-15 * gscale):
        rec.fail("%s/speed-linearity" % c["kind"], "derivative at 2.5*speed is %r, 2.5*derivative = %r"
                 % (got2, 2.5 * got), c)
    if charges:
        got3 = pot.derivative(v, list(s), charges[0] * 3.0, charges[1])
        got4 = pot.derivative(v, list(s), -charges[0], charges[1])
        if not close(got3, 3.0 * got, 1e-13, 1e-15 * gscale) or not close(got4, -got, 1e-13, 1e-15 * gscale):
            rec.fail("%s/charge-linearity" % c["kind"], "not linear in the charge product: %r, %r vs %r"
                     % (got3, got4, got), c)
    sm = list(s)
    sm[d] = -sm[d]
    if not close(pot.derivative(v, sm, *charges), -got, 1e-13, 1e-15 * gscale):
        rec.fail("%s/odd" % c["kind"], "derivative is not odd in the component along the motion", c)
    for i in range(dim):
        if i != d:
            se = list(s)
            se[i] = -se[i]
            if not close(pot.derivative(v, se, *charges), got, 1e-13, 1e-15 * gscale):
                rec.fail("%s/even" % c["kind"], "derivative is not even in transverse component %d" % i, c)
    if dim == 3:
        # direction d on s equals direction 0 on the cyclic permutation that brings s_d to the front
        perm = [s[(d + i) % 3] for i in range(3)]
        g0 = pot.derivative([speed, 0.0, 0.0], perm, *charges)
        if not close(g0, got, 1e-13, 1e-15 * gscale):
            rec.fail("%s/permutation" % c["kind"], "direction %d gives %r, direction 0 on the cyclic permutation %r"
                     % (d, got, g0), c)
    nz = sum(1 for x in s if x != 0.0)
    nt = abs(s[d]) > 1e-3 * math.hypot(*s) and nz >= 2
    rec.case("%s/%s" % (c["kind"], c["shape"]), tuple(sorted((k, tuple(x) if isinstance(x, list) else x)
                                                             for k, x in c.items())), nt, c)


# ------------------------------------------------------------------------------------------------- lattice sum

@st.composite
def lattice_case(draw):
    L = draw(st.sampled_from([1.0, 1.0, 0.37, 2.5, 10.0]))
    half = L / 2.0
    shape = draw(st.sampled_from(["bulk", "bulk", "face", "edge", "corner", "origin", "axis", "tangential"]))

    def inside():
        return draw(gen.floats(-half, math.nextafter(half, 0.0)))

    def near_face():
        e = draw(st.sampled_from([0.0, 1e-12, 1e-9, 1e-6, 1e-3])) * L
        return draw(st.sampled_from([-half + e, math.nextafter(half, 0.0) - e]))
    s = [inside(), inside(), inside()]
    d = draw(st.integers(0, 2))
    if shape == "face":
        s[draw(st.integers(0, 2))] = near_face()
    elif shape == "edge":
        i = draw(st.integers(0, 2))
        s[(i + 1) % 3], s[(i + 2) % 3] = near_face(), near_face()
    elif shape == "corner":
        s = [near_face(), near_face(), near_face()]
    elif shape == "origin":
        f = draw(gen.log_uniform(1e-6, 1e-2))
        s = [x * f for x in s]
    elif shape == "axis":
        s = [0.0 if i != d else s[i] for i in range(3)]
    elif shape == "tangential":
        s[d] = draw(st.sampled_from([0.0, 1e-12 * L, -1e-9 * L]))
    if math.hypot(*s) < 1e-7 * L:
        s[(d + 1) % 3] = 0.01 * L
    return {"L": L, "separation": s, "direction": d, "shape": shape,
            "c1": draw(st.sampled_from([1.0, -1.0, 2.0, -0.5, 0.3])),
            "c2": draw(st.sampled_from([1.0, -1.0, 2.0, 1.7])),
            "k": draw(st.sampled_from([1.0, 1.0, 0.5, 138.935])),
            "speed": draw(st.one_of(st.just(1.0), gen.log_uniform(1e-3, 1e3))),
            "shift": draw(st.tuples(st.integers(-2, 2), st.integers(-2, 2), st.integers(-2, 2))),
            "alt": draw(st.integers(0, 4))}


# other converged Ewald splittings, including ones whose position-space cut-off exceeds the Fourier cut-off (the natural
# choice for a small alpha)
ALT_PARAMETERS = [(3.0, 6, 3), (4.0, 8, 2), (1.5, 3, 5), (1.0, 2, 7), (2.0, 4, 4)]


def body_lattice(rec, **c):
    ewald = ensure_ewald()
    L = c["L"]
    init_cubic(L)
    from jellyfysh.potential.merged_image_coulomb_potential import MergedImageCoulombPotential
    pot = MergedImageCoulombPotential(prefactor=c["k"])
    d, s, speed = c["direction"], c["separation"], c["speed"]
    v = [0.0, 0.0, 0.0]
    v[d] = speed
    got = pot.derivative(v, list(s), c["c1"], c["c2"])
    g = ewald.grad_psi(s, L)
    kc = c["k"] * c["c1"] * c["c2"]
    want = -g[d] * kc * speed
    tol_abs = 1e-10 / (L * L) * abs(kc) * speed
    if not close(got, want, 1e-10, tol_abs):
        rec.fail("lattice/value", "derivative %r differs from the converged lattice sum %r (L=%r, separation %r, "
                 "direction %d)" % (got, want, L, s, d), c)
    scale = abs(kc) * speed * max(abs(x) for x in g)
    tight = 1e-12 * scale + tol_abs * 1e-2
    # linear in speed / charges
    v2 = [0.0, 0.0, 0.0]
    v2[d] = 2.5 * speed
    if not close(pot.derivative(v2, list(s), c["c1"], c["c2"]), 2.5 * got, 1e-13, 1e-15 * scale):
        rec.fail("lattice/speed-linearity", "not linear in the speed", c)
    if not close(pot.derivative(v, list(s), -2.0 * c["c1"], c["c2"]), -2.0 * got, 1e-13, 1e-15 * scale):
        rec.fail("lattice/charge-linearity", "not linear in the charge product", c)
    # odd in s_d, even in the others
    sm = list(s)
    sm[d] = -sm[d]
    if abs(pot.derivative(v, sm, c["c1"], c["c2"]) + got) > tight:
        rec.fail("lattice/odd", "derivative not odd in the component along the motion: %r vs %r" % (
            pot.derivative(v, sm, c["c1"], c["c2"]), got), c)
    for i in range(3):
        if i != d:
            se = list(s)
            se[i] = -se[i]
            if abs(pot.derivative(v, se, c["c1"], c["c2"]) - got) > tight:
                rec.fail("lattice/even", "derivative not even in transverse component %d" % i, c)
    # periodic in the box: a component within 1e-3 L of a face is moved to the opposite face (s_i -> s_i -+ L); both
    # are minimum-image representations of (almost) the same point.  Arbitrary lattice shifts are NOT probed: the
    # position-space sum is truncated around the given separation, whose documented domain is the minimum image.
    sh = list(s)
    moved = False
    for i in range(3):
        if abs(s[i]) >= 0.499 * L:
            sh[i] = s[i] - math.copysign(L, s[i])
            moved = True
    if moved:
        per = pot.derivative(v, sh, c["c1"], c["c2"])
        if abs(per - got) > 1e-9 * scale + 1e-9 / (L * L) * abs(kc) * speed:
            rec.fail("lattice/periodicity", "derivative at the opposite face %r is %r, at %r it is %r" % (sh, per, s, got),
                     c)
    # permutation of the axes
    perm = [s[(d + i) % 3] for i in range(3)]
    g0 = pot.derivative([speed, 0.0, 0.0], perm, c["c1"], c["c2"])
    if abs(g0 - got) > 1e-13 * abs(got) + 1e-15 * scale:
        rec.fail("lattice/permutation", "direction %d gives %r, direction 0 on the cyclic permutation %r" % (d, got, g0),
                 c)
    # independence of the Ewald parameters
    alpha, fc, pc = ALT_PARAMETERS[c["alt"]]
    alt = MergedImageCoulombPotential(alpha=alpha, fourier_cutoff=fc, position_cutoff=pc, prefactor=c["k"])
    ga = alt.derivative(v, list(s), c["c1"], c["c2"])
    if not close(ga, got, 1e-8, 1e-8 / (L * L) * abs(kc) * speed):
        rec.fail("lattice/alpha-dependence", "alpha=%r cut-offs (%d,%d) give %r, defaults %r" % (alpha, fc, pc, ga, got),
                 c)
    # copies are bit-identical
    for name, clone in (("deepcopy", copy.deepcopy(pot)), ("pickle", pickle.loads(pickle.dumps(pot)))):
        gc_ = clone.derivative(v, list(s), c["c1"], c["c2"])
        if gc_ != got:
            rec.fail("lattice/%s" % name, "%s of the potential gives %r instead of %r" % (name, gc_, got), c)
    nz = sum(1 for x in s if x != 0.0)
    nt = (abs(s[d]) > 1e-3 * math.hypot(*s) and nz >= 2) or c["shape"] in ("face", "edge", "corner", "origin")
    rec.maximum("max_error_relative_to_value_plus_1_over_L2",
                abs(got - want) / (abs(want) + abs(kc) * speed / (L * L)), {"s": s, "L": L, "d": d})
    rec.case("lattice/%s" % c["shape"], (L, tuple(s), d, c["c1"], c["c2"], c["k"], c["speed"]), nt, c)


# ------------------------------------------------------------------------------------------------- bending

@st.composite
def bending_case(draw):
    dim = draw(st.sampled_from([2, 3, 3]))
    phi = draw(gen.floats(0.05, math.pi - 0.05))
    r1 = draw(gen.log_uniform(0.1, 10.0))
    r2 = draw(gen.log_uniform(0.1, 10.0))
    # build the two bonds in a plane, then rotate by drawn angles
    a = [r1, 0.0, 0.0]
    b = [r2 * math.cos(phi), r2 * math.sin(phi), 0.0]
    angles = [draw(gen.floats(0.0, 2 * math.pi)) for _ in range(3)] if dim == 3 else [draw(gen.floats(0, 6.28)), 0, 0]

    def rot(v):
        x, y, z = v
        c0, s0 = math.cos(angles[0]), math.sin(angles[0])
        x, y = c0 * x - s0 * y, s0 * x + c0 * y
        if dim == 3:
            c1, s1 = math.cos(angles[1]), math.sin(angles[1])
            y, z = c1 * y - s1 * z, s1 * y + c1 * z
            c2, s2 = math.cos(angles[2]), math.sin(angles[2])
            x, z = c2 * x - s2 * z, s2 * x + c2 * z
        return [x, y, z][:dim]
    return {"dim": dim, "sep_one": rot(a), "sep_two": rot(b), "phi0": draw(gen.floats(0.3, 3.0)),
            "k": draw(st.one_of(st.just(1.0), gen.log_uniform(1e-2, 1e3))),
            "direction": draw(st.integers(0, dim - 1)),
            "speed": draw(st.one_of(st.just(1.0), gen.log_uniform(1e-2, 1e2)))}


def body_bending(rec, **c):
    import jellyfysh.setting as setting
    from jellyfysh.setting import hypercubic_setting
    setting.reset()
    hypercubic_setting.HypercubicSetting(beta=1.0, dimension=c["dim"], system_length=100.0)
    from jellyfysh.potential.bending_potential import BendingPotential
    pot = BendingPotential(equilibrium_angle=c["phi0"], prefactor=c["k"])
    dim, d, speed = c["dim"], c["direction"], c["speed"]
    v = [0.0] * dim
    v[d] = speed
    di, dj, dk = pot.derivative(v, list(c["sep_one"]), list(c["sep_two"]))
    mag = max(abs(di), abs(dj), abs(dk))
    if abs(di + dj + dk) > 1e-12 * mag + 1e-300:
        rec.fail("bending/translation-invariance", "the three derivatives %r sum to %r" % ((di, dj, dk), di + dj + dk),
                 c)
    # positions: j at the origin
    rj = [0.0] * dim
    ri = list(c["sep_one"])
    rk = list(c["sep_two"])
    h = 1e-5 * min(math.hypot(*ri), math.hypot(*rk))

    def energy(pi, pj, pk):
        return energies.bending(c["k"], c["phi0"], pi, pj, pk)

    def fd(which):
        def moved(t):
            p = [list(ri), list(rj), list(rk)]
            p[which][d] += t
            return energy(*p)
        d1 = (moved(h) - moved(-h)) / (2 * h)
        d2 = (moved(2 * h) - moved(-2 * h)) / (4 * h)
        return (4 * d1 - d2) / 3 * speed
    for name, which, got in (("i", 0, di), ("j", 1, dj), ("k", 2, dk)):
        want = fd(which)
        # absolute floor: rounding of the model energy (~ eps k pi^2) divided by the difference step
        if not close(got, want, 1e-6, 1e-7 * mag + 1e-13 * c["k"] * speed / h):
            rec.fail("bending/value", "derivative with respect to unit %s is %r, central difference of the model "
                     "energy %r" % (name, got, want), c)
    rec.case("bending/dim%d" % dim, (tuple(ri), tuple(rk), c["phi0"], c["k"], d), mag > 0.0, c)


def _unwrap(f):
    return lambda rec, c=None, **kw: f(rec, **(c if c is not None else kw))


CHECKS = [
    Check("closed_form", _unwrap(body_closed), lambda: {"c": closed_case()}, quick=3000, thorough=40000,
          quick_shards=5),
    Check("lattice_sum", _unwrap(body_lattice), lambda: {"c": lattice_case()}, quick=500, thorough=6000,
          quick_shards=8),
    Check("bending", _unwrap(body_bending), lambda: {"c": bending_case()}, quick=2000, thorough=30000,
          quick_shards=3, thorough_shards=8),
]
