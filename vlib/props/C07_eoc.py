"""C07 (handler part) - an end-of-chain event hands the motion over without changing the speed.

The histories only meet the end-of-chain handlers in the modes the shipped files use (point-mass motion; molecule motion
only in 3-D with the periodic-direction handler).  Here both handlers - the 3-D periodic-direction one and the 2-D
sequential-direction one - get directly drawn branches in point-mass mode and in molecule mode (all point masses of an
object moving), and may draw the same or another object as the next active one.  Oracle, from the statement of C07:
after the event exactly the units of the new active branch move, every moving point mass has the speed the old one had,
a composite object's stored velocity is the weighted sum of its point masses', every stopped unit was advanced to the
event time first, and nothing left the box."""
import math

from hypothesis import strategies as st

from .. import gen
from ..runner import Check
from ..scripted_random import Scripted

PROPERTY = "C07"


@st.composite
def eoc_case(draw):
    kind = draw(st.sampled_from(["periodic3", "sequential2"]))
    sites = draw(st.sampled_from([1, 2, 2, 3]))
    return {"kind": kind, "sites": sites, "molecule_mode": sites > 1 and draw(st.booleans()),
            "objects": draw(st.integers(2, 4)), "active_object": draw(st.integers(0, 1)),
            "active_site": draw(st.integers(0, sites - 1)), "speed": draw(st.sampled_from([1.0, 0.5, 2.0, 1.7])),
            "direction": draw(st.integers(0, 1)), "angle_steps": draw(st.integers(0, 7)),
            "stamp": draw(gen.floats(0.0, 0.9)), "chain_time": draw(st.sampled_from([0.7, 1.0, 2.5])),
            "delta_phi": draw(st.sampled_from([20.0, 90.0, 135.0])),
            "positions": [[draw(gen.floats(0.0, 0.999)) for _ in range(3)] for _ in range(12)],
            "choice": draw(st.integers(0, 10 ** 6))}


def body_eoc(rec, **c):
    import jellyfysh.setting as setting
    from jellyfysh.setting import hypercubic_setting
    from jellyfysh.base.node import Node
    from jellyfysh.base.time import Time
    from jellyfysh.base.unit import Unit
    dim = 3 if c["kind"] == "periodic3" else 2
    sites, n_obj = c["sites"], c["objects"]
    setting.reset()
    hypercubic_setting.HypercubicSetting(beta=1.0, dimension=dim, system_length=1.0)
    setting.set_number_of_root_nodes(n_obj)
    setting.set_number_of_nodes_per_root_node(sites)
    setting.set_number_of_node_levels(2 if sites > 1 else 1)
    if c["kind"] == "periodic3":
        from jellyfysh.event_handler import single_independent_active_periodic_direction_end_of_chain_event_handler as mod
        handler = mod.SingleIndependentActivePeriodicDirectionEndOfChainEventHandler(chain_time=c["chain_time"])
        v = [0.0] * dim
        v[c["direction"]] = c["speed"]
    else:
        from jellyfysh.event_handler import single_independent_active_sequential_direction_end_of_chain_event_handler \
            as mod
        handler = mod.SingleIndependentActiveSequentialDirectionEndOfChainEventHandler(
            chain_time=c["chain_time"], delta_phi_degree=c["delta_phi"])
        phi = math.radians(c["delta_phi"]) * c["angle_steps"]
        v = [c["speed"] * math.cos(phi), c["speed"] * math.sin(phi)]
    from jellyfysh.event_handler.abstracts import end_of_chain_event_handler as mod_abs
    pos = [p[:dim] for p in c["positions"]]
    w = 1.0 / sites
    a = c["active_object"]

    def branch(obj, moving_sites, with_velocity, root_moves_anyway=False):
        """root cnode of object `obj` with the given point masses (moving or resting); `root_moves_anyway`: a resting
        point mass of the object whose other point mass is the moving one (the root then carries its induced velocity)"""
        if sites == 1:
            return Node(Unit((obj,), list(pos[obj]), None, list(v) if with_velocity else None,
                             Time.from_float(c["stamp"]) if with_velocity else None), weight=1)
        root_v = None
        if with_velocity:
            root_v = list(v) if len(moving_sites) == sites else [x * w for x in v]
        elif root_moves_anyway:
            root_v = [x * w for x in v]
        root = Node(Unit((obj,), list(pos[obj]), None, root_v,
                         Time.from_float(c["stamp"]) if root_v is not None else None), weight=1)
        for sidx in moving_sites:
            root.add_child(Node(Unit((obj, sidx), list(pos[(obj * 3 + sidx + 4) % 12]), None,
                                     list(v) if with_velocity else None,
                                     Time.from_float(c["stamp"]) if with_velocity else None), weight=w))
        return root
    moving_sites = list(range(sites)) if c["molecule_mode"] else [c["active_site"]]
    active = branch(a, moving_sites, True)
    scripted = Scripted(choices=[c["choice"]] * 4, randints=[c["choice"]] * 4, uniforms=[0.5] * 4, strict=False)
    olds = []
    for m in {mod, mod_abs}:
        olds.append((m, getattr(m, "random", None)))
        if hasattr(m, "random"):
            m.random = scripted
    try:
        t_event, new_ids = handler.send_event_time([active])
        new_ids = [tuple(i) for i in new_ids[0]]         # (the handler returns [[identifier, ...]])
        # the mediator hands over the extracted branches of the new active identifiers
        new_branches = []
        for ident in new_ids:
            if ident == active.value.identifier or (len(ident) == 2 and ident[0] == a and ident[1] in moving_sites
                                                    and not c["molecule_mode"]):
                # the same unit goes on: the mediator extracts it again (a copy of the moving branch)
                new_branches.append(branch(a, moving_sites, True))
            elif len(ident) == 1:
                new_branches.append(branch(ident[0], list(range(sites)) if sites > 1 else [0], ident[0] == a))
            else:
                if ident[0] == a and ident[1] in moving_sites:
                    new_branches.append(branch(a, moving_sites, True))
                else:
                    new_branches.append(branch(ident[0], [ident[1]], False,
                                               root_moves_anyway=(ident[0] == a and not c["molecule_mode"])))
        out = handler.send_out_state([active], new_branches)
    finally:
        for m, old in olds:
            if old is not None:
                m.random = old
    speed_old = math.hypot(*v)
    seen = {}
    for root in out:
        stack = [root]
        while stack:
            n = stack.pop()
            seen.setdefault(n.value.identifier, []).append(n)
            stack.extend(n.children)
    moving_leaves = []
    for ident, copies in seen.items():
        n = copies[-1]
        u = n.value
        is_leaf = (len(ident) == 2) or sites == 1
        for x, L in zip(u.position, [1.0] * dim):
            if not (0.0 <= x < L):
                rec.fail("eoc/outside-box", "unit %r at %r after the end-of-chain event" % (ident, u.position), c)
        if u.velocity is not None and any(x != 0.0 for x in u.velocity):
            if (u.time_stamp.quotient, u.time_stamp.remainder) != (t_event.quotient, t_event.remainder):
                rec.fail("eoc/time-stamp", "moving unit %r carries time stamp %r after the event at %r"
                         % (ident, u.time_stamp, t_event), c)
            if is_leaf:
                moving_leaves.append(ident)
                if abs(math.hypot(*u.velocity) - speed_old) > 1e-12 * speed_old:
                    rec.fail("eoc/speed-changed", "after the end-of-chain event point mass %r moves with speed %r, the "
                             "chain had speed %r (%s mode, %d point masses per object)" % (
                                 ident, math.hypot(*u.velocity), speed_old,
                                 "molecule" if c["molecule_mode"] else "point-mass", sites), c)
    if sites > 1:
        for root in out:
            kids = [k.value for k in root.children if k.value.velocity is not None and any(k.value.velocity)]
            rv = root.value.velocity
            want = [sum(w * k.velocity[d] for k in kids) for d in range(dim)]
            if kids and (rv is None or any(abs(x - y) > 1e-12 * speed_old for x, y in zip(rv, want))):
                rec.fail("eoc/root-velocity", "object %r stores velocity %r, the weighted sum of its moving point masses "
                         "in this branch is %r" % (root.value.identifier, rv, want), c)
    if not moving_leaves:
        rec.fail("eoc/nothing-moves", "no point mass moves after the end-of-chain event", c)
    if not c["molecule_mode"] and len(set(moving_leaves)) != 1:
        rec.fail("eoc/two-chains", "point masses %r move after an end-of-chain event in point-mass mode"
                 % (sorted(set(moving_leaves)),), c)
    rec.case("%s/%s/sites%d" % (c["kind"], "molecule" if c["molecule_mode"] else "point-mass", sites),
             repr(sorted(c.items())), sites > 1, {k: v for k, v in c.items() if k != "positions"})


CHECKS = [Check("end_of_chain_out_state", lambda rec, c=None, **kw: body_eoc(rec, **(c if c is not None else kw)),
                lambda: {"c": eoc_case()}, quick=300, thorough=3000, quick_shards=2, thorough_shards=8)]
