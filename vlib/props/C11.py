"""C11 - history property decided by the monitor (vlib/monitor.py) on instrumented runs of shipped and generated
configurations (vlib/configs.py, vlib/engine.py)."""
from ..configs import config_case
from ..runner import Check
from ._history import run_history

PROPERTY = "C11"
RULE = 'Generator of C07 restricted to the 8 shipped cell configurations (+edits: grids 3..6 per side, N up to 12 with clustered starts; occupant limits other than 1 only in the families G5/G6, because cell-veto and cell-bounding handlers take one target per cell). Oracle before every get after the first commit: every relevant non-active unit listed exactly once (occupants + surplus), occupants in the cell of their current position, active unit in neither list and its recorded cell contains its position, caps respected; at every commit the active unit advanced to the event time lies in its recorded cell (4 ulp slack); after a cell-boundary event it is in the neighbour cell in the direction of motion. Non-trivial: history with >=1 cell crossing and >=1 active-unit change; distinct by (config, edits, seed, budget).'
ASSUMPTIONS = ["configurations are the runnable shipped .ini files verbatim, or shipped files with parameter edits "
               "only (particle number with number_event_handlers scaled, box, beta, chain/sampling times, grids, "
               "scheduler, speed, initial direction); generated wirings are limited to the families G4-G7 derived from "
               "shipped files (DESIGN.md 8.5) and to a second sampling tagger copied from the shipped one",
               "observation by wrapping instance attributes of state handler, scheduler, activator, input-output "
               "handler and event handlers; private reads: Mediator._state_handler/_scheduler/_activator/"
               "_input_output_handler, Activator._taggers/_internal_states"]
NT = lambda m: m.stats['cell_crossings'] >= 1 and m.stats['active_unit_changes'] >= 1
KW = {'cells_only': True}


def body(rec, c):
    run_history(rec, PROPERTY, c, NT)


CHECKS = [Check("history", body, lambda: {"c": config_case(**KW)}, quick=7, thorough=80, quick_shards=16,
                thorough_shards=16, shrink_quick=False)]

from . import C11_occupancy  # noqa: E402  (direct part: the bookkeeping driven leg by leg)
CHECKS = CHECKS + C11_occupancy.CHECKS
RULE += (" Sub-check occupancy_legs (no run): generated populations (up to 40 units, several per cell, caps 1/2/3/"
         "unbounded, signed and zero charges behind a charge filter, point masses or whole objects in cells) in a real "
         "state handler; 3-14 legs that move the active unit inside its cell, carry it across a wall up or down (also "
         "the periodic wall, landing exactly on the neighbour's limit) or hand the activity to an occupant or surplus "
         "unit of the same cell, to a unit elsewhere or to a filtered-out unit; after each leg update() is called and "
         "occupant lists, the private surplus lists (per cell) and the active record are compared with the positions. "
         "Non-trivial: a sequence with a switch, a crossing and a surplus list.")

from . import C11_boundary  # noqa: E402  (handler part: the cell-boundary handler on drawn in-states)
CHECKS = CHECKS + C11_boundary.CHECKS
RULE += (" Sub-check boundary_handler (no run): CellBoundaryEventHandler on drawn branches (cubic/cuboid boxes, 2-7 "
         "cells per side along the axes of motion, positions in the bulk, on a wall, next to a wall, at the top of the box; 1..dim velocity "
         "components of either sign, magnitudes 1e-3..1e3; point mass, point mass of a composite, whole object); "
         "oracle from the extents of the unit's own cell and identifier arithmetic: candidate time = first wall "
         "reached (not earlier, not later), out-state on the facing limit of the neighbour cell, in the neighbour on "
         "the crossing axis only, all units time-sliced with unchanged velocity. Non-trivial: oblique or downward "
         "motion or a start exactly on a wall.")
