"""C18 - cell-veto proposals pick target cells exactly in proportion to their bound rates.

(a) Walker alias table: exact integration over both scripted draws (row choice x uniform)."""
import math

from hypothesis import strategies as st

from .. import gen
from ..build import HarnessError
from ..runner import Check
from ..scripted_random import Scripted, bisect_steps

PROPERTY = "C18"
RULE = ("(a) Hypothesis draws rate vectors of 1..400 non-negative rates (0-90% zeros, all equal, one dominant, 12 "
        "decades, values within +-1 ulp of the mean; total > 0). With `random` of jellyfysh.event_handler.walker "
        "scripted, every table row is selected in turn and the break point of the second draw is located by "
        "bisection; P(cell) = sum over rows of the u-interval lengths / rows. Oracle: |P - rate/fsum(rates)| <= 1e-12, "
        "total_rate == fsum(rates) (rel 1e-13), zero-rate cells never returned at any evaluated draw incl. u=0 and "
        "u=1, construction raises nothing. Non-trivial: >=1 zero rate and >=2 distinct positive rates. "
        "(b) see the handler check. Distinct by the rate vector / configuration.")
ASSUMPTIONS = ["rates are 0 or in [1e-9, 1e9] with a positive sum (denormal rates underflow the mean rate; an all-zero vector has no distribution and "
               "divides by zero at construction: excluded and counted)",
               "random.choice/uniform replaced through the module attribute `random` of the walker module"]


def walker_mod():
    from jellyfysh.event_handler import walker
    return walker


@st.composite
def rates_case(draw):
    kind = draw(st.sampled_from(["mixed", "equal", "dominant", "decades", "near_mean", "small_n"]))
    n = draw(st.integers(1, 8)) if kind == "small_n" else draw(st.one_of(st.integers(1, 40), st.integers(1, 400)))
    zero_frac = draw(st.sampled_from([0.0, 0.0, 0.2, 0.5, 0.9]))
    rates = []
    base = draw(gen.log_uniform(1e-3, 1e3))
    for i in range(n):
        if zero_frac and draw(gen.floats(0.0, 1.0)) < zero_frac:
            rates.append(0.0)
            continue
        if kind == "equal":
            rates.append(base)
        elif kind == "dominant":
            rates.append(base * 1e6 if i == 0 else base * draw(gen.floats(0.1, 2.0)))
        elif kind == "decades":
            rates.append(draw(gen.log_uniform(1e-6, 1e6)))
        elif kind == "near_mean":
            rates.append(gen.step(base, draw(st.integers(-1, 1))))
        else:
            rates.append(draw(st.one_of(gen.floats(1e-6, 10.0), st.just(0.0), gen.log_uniform(1e-4, 1e2),
                                        st.integers(0, 5).map(float))))
    return {"rates": rates}


def body_walker(rec, rates):
    w = walker_mod()
    args = {"rates": rates}
    total = math.fsum(rates)
    if not total > 0.0:
        rec.exclude("all-zero rate vector")
        return
    n = len(rates)
    walker = w.Walker([w.WalkerItem(i, r) for i, r in enumerate(rates)])
    if abs(walker.total_rate - total) > 1e-13 * total:
        rec.fail("walker/total-rate", "total_rate %r differs from the sum of rates %r" % (walker.total_rate, total),
                 args)
    prob = [0.0] * n
    state = {"row": 0, "rows": None}

    def f(u):
        s = Scripted(choices=[state["row"]], uniforms=[u])
        old = w.random
        w.random = s
        try:
            item = walker.sample_cell()
        finally:
            w.random = old
        if s.leftover():
            raise HarnessError("walker consumed fewer draws than scripted")
        state["rows"] = [e[1] for e in s.log if e[0] == "choice"][0]  # length of the sequence given to choice()
        if not rates[item] > 0.0:
            rec.fail("walker/zero-rate-selected/%s" % ("endpoint" if u in (0.0, 1.0) else "interior"),
                     "cell %d with rate %r selected (row %d, u=%r)" % (item, rates[item], state["row"], u),
                     dict(args, row=state["row"], u=u))
        return item

    f(0.5)
    rows = state["rows"]
    for row in range(rows):
        state["row"] = row
        steps, _ = bisect_steps(f)
        if len(steps) > 1:
            rec.fail("walker/not-two-way", "row %d of the alias table has %d break points" % (row, len(steps)), args)
        edges = [0.0] + [(s[0] + s[1]) / 2.0 for s in steps] + [1.0]
        values = [f(0.0)] + [s[3] for s in steps]
        for j, v in enumerate(values):
            prob[v] += (edges[j + 1] - edges[j]) / rows
        mid = f(0.5)
        expect = values[0] if not steps or 0.5 <= steps[0][0] else values[-1]
        if steps and steps[0][0] < 0.5 < steps[0][1]:
            expect = mid
        if mid != expect:
            rec.fail("walker/not-a-step-function", "row %d: u=0.5 selects %r, steps predict %r" % (row, mid, expect),
                     args)
    worst = 0.0
    for i in range(n):
        err = abs(prob[i] - rates[i] / total)
        worst = max(worst, err)
        if err > 1e-12:
            rec.fail("walker/probability", "cell %d selected with probability %r, rate/total = %r (n=%d)"
                     % (i, prob[i], rates[i] / total, n), args)
    rec.maximum("max_probability_error", worst, None)
    zeros = sum(1 for r in rates if r == 0.0)
    distinct_pos = len({r for r in rates if r > 0.0})
    nt = zeros >= 1 and distinct_pos >= 2
    label = "n<=8" if n <= 8 else ("n<=40" if n <= 40 else "n>40")
    rec.case("%s%s" % (label, "+zeros" if zeros else ""), tuple(rates), nt,
             {"n": n, "zeros": zeros, "rates_head": rates[:8], "rows": rows})


def _unwrap(f):
    return lambda rec, c=None, **kw: f(rec, **(c if c is not None else kw))


CHECKS = [Check("walker", _unwrap(body_walker), lambda: {"c": rates_case()}, quick=400, thorough=5000,
                quick_shards=12)]
