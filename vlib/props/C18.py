"""C18 - cell-veto proposals pick target cells exactly in proportion to their bound rates.

(a) Walker alias table: exact integration over both scripted draws (row choice x uniform)."""
import math

from hypothesis import strategies as st

from .. import gen
from ..build import HarnessError
from ..runner import Check
from ..scripted_random import Scripted, bisect_steps

PROPERTY = "C18"
RULE = ("(a) Hypothesis draws rate vectors of 1..400 non-negative rates (0-90% zeros, all equal, one dominant, 12 "
        "decades, values within +-1 ulp of the mean; total > 0). With `random` of jellyfysh.event_handler.walker "
        "scripted, every table row is selected in turn and the break point of the second draw is located by "
        "bisection; P(cell) = sum over rows of the u-interval lengths / rows. Oracle: |P - rate/fsum(rates)| <= 1e-12, "
        "total_rate == fsum(rates) (rel 1e-13), zero-rate cells never returned at any evaluated draw incl. u=0 and "
        "u=1, construction raises nothing. Non-trivial: >=1 zero rate and >=2 distinct positive rates. "
        "(b) real LeafUnitCellVetoEventHandler on drawn periodic grids with a harness Estimator whose bounds B(offset, "
        "direction) are known, active cell anywhere incl. periodic faces, both charge signs: candidate time == ts + "
        "e/(beta*sum_offsets max(B,0)*|q|*speed); enumerating alias rows x located thresholds, the target cell at offset "
        "r from the active cell is proposed with probability max(B(r),0)/sum; the break point of the confirmation "
        "draw equals q_true/(B(sampled offset, direction)*|q|); an empty target cell leaves the state unchanged. "
        "Non-trivial (b): active cell on a periodic face. Distinct by the rate vector / configuration.")
ASSUMPTIONS = ["rates are 0 or in [1e-9, 1e9] with a positive sum (denormal rates underflow the mean rate; an all-zero vector has no distribution and "
               "divides by zero at construction: excluded and counted)",
               "random.choice/uniform replaced through the module attribute `random` of the walker module"]


def walker_mod():
    from jellyfysh.event_handler import walker
    return walker


@st.composite
def rates_case(draw):
    kind = draw(st.sampled_from(["mixed", "equal", "dominant", "decades", "near_mean", "small_n"]))
    n = draw(st.integers(1, 8)) if kind == "small_n" else draw(st.one_of(st.integers(1, 40), st.integers(1, 400)))
    zero_frac = draw(st.sampled_from([0.0, 0.0, 0.2, 0.5, 0.9]))
    rates = []
    base = draw(gen.log_uniform(1e-3, 1e3))
    for i in range(n):
        if zero_frac and draw(gen.floats(0.0, 1.0)) < zero_frac:
            rates.append(0.0)
            continue
        if kind == "equal":
            rates.append(base)
        elif kind == "dominant":
            rates.append(base * 1e6 if i == 0 else base * draw(gen.floats(0.1, 2.0)))
        elif kind == "decades":
            rates.append(draw(gen.log_uniform(1e-6, 1e6)))
        elif kind == "near_mean":
            rates.append(gen.step(base, draw(st.integers(-1, 1))))
        else:
            rates.append(draw(st.one_of(gen.floats(1e-6, 10.0), st.just(0.0), gen.log_uniform(1e-4, 1e2),
                                        st.integers(0, 5).map(float))))
    return {"rates": rates}


def body_walker(rec, rates):
    w = walker_mod()
    args = {"rates": rates}
    total = math.fsum(rates)
    if not total > 0.0:
        rec.exclude("all-zero rate vector")
        return
    n = len(rates)
    walker = w.Walker([w.WalkerItem(i, r) for i, r in enumerate(rates)])
    if abs(walker.total_rate - total) > 1e-13 * total:
        rec.fail("walker/total-rate", "total_rate %r differs from the sum of rates %r" % (walker.total_rate, total),
                 args)
    prob = [0.0] * n
    state = {"row": 0, "rows": None}

    def f(u):
        s = Scripted(choices=[state["row"]], uniforms=[u])
        old = w.random
        w.random = s
        try:
            item = walker.sample_cell()
        finally:
            w.random = old
        if s.leftover():
            raise HarnessError("walker consumed fewer draws than scripted")
        state["rows"] = [e[1] for e in s.log if e[0] == "choice"][0]  # length of the sequence given to choice()
        if not rates[item] > 0.0:
            rec.fail("walker/zero-rate-selected/%s" % ("endpoint" if u in (0.0, 1.0) else "interior"),
                     "cell %d with rate %r selected (row %d, u=%r)" % (item, rates[item], state["row"], u),
                     dict(args, row=state["row"], u=u))
        return item

    f(0.5)
    rows = state["rows"]
    for row in range(rows):
        state["row"] = row
        steps, _ = bisect_steps(f)
        if len(steps) > 1:
            rec.fail("walker/not-two-way", "row %d of the alias table has %d break points" % (row, len(steps)), args)
        edges = [0.0] + [(s[0] + s[1]) / 2.0 for s in steps] + [1.0]
        values = [f(0.0)] + [s[3] for s in steps]
        for j, v in enumerate(values):
            prob[v] += (edges[j + 1] - edges[j]) / rows
        mid = f(0.5)
        expect = values[0] if not steps or 0.5 <= steps[0][0] else values[-1]
        if steps and steps[0][0] < 0.5 < steps[0][1]:
            expect = mid
        if mid != expect:
            rec.fail("walker/not-a-step-function", "row %d: u=0.5 selects %r, steps predict %r" % (row, mid, expect),
                     args)
    worst = 0.0
    for i in range(n):
        err = abs(prob[i] - rates[i] / total)
        worst = max(worst, err)
        if err > 1e-12:
            rec.fail("walker/probability", "cell %d selected with probability %r, rate/total = %r (n=%d)"
                     % (i, prob[i], rates[i] / total, n), args)
    rec.maximum("max_probability_error", worst, None)
    zeros = sum(1 for r in rates if r == 0.0)
    distinct_pos = len({r for r in rates if r > 0.0})
    nt = zeros >= 1 and distinct_pos >= 2
    label = "n<=8" if n <= 8 else ("n<=40" if n <= 40 else "n>40")
    rec.case("%s%s" % (label, "+zeros" if zeros else ""), tuple(rates), nt,
             {"n": n, "zeros": zeros, "rates_head": rates[:8], "rows": rows})


def _unwrap(f):
    return lambda rec, c=None, **kw: f(rec, **(c if c is not None else kw))


CHECKS = [Check("walker", _unwrap(body_walker), lambda: {"c": rates_case()}, quick=400, thorough=3000,
                quick_shards=12)]


# ------------------------------------------------------------------------------------------------ (b) cell-veto handler

def bound_function(lo, hi, d):
    """Harness-known estimator bounds as a function of the corners of the relative cell and the direction."""
    m = [(a + b) / 2.0 for a, b in zip(lo, hi)]
    phase = 3.1 * m[0] + 5.3 * (m[1] if len(m) > 1 else 0.0) + 7.7 * (m[2] if len(m) > 2 else 0.0) + 1.3 * d
    upper = 0.2 + abs(math.sin(phase)) + 0.1 * d
    if math.cos(7.0 * phase) > 0.8:
        upper = -0.5          # a relative cell whose upper bound is negative: rate max(.,0) = 0, never proposed
    lower = -(0.15 + abs(math.cos(phase)))
    return upper, lower


@st.composite
def veto_case(draw):
    dim = 3
    per = [draw(st.integers(3, 5)) for _ in range(dim)]
    if max(per) <= 3:
        per[draw(st.integers(0, 2))] = 4
    lengths = [draw(st.sampled_from([1.0, 2.0]))] * 3 if draw(st.booleans()) else [draw(st.sampled_from([1.0, 1.5, 2.0]))
                                                                                  for _ in range(3)]
    active_cell = [draw(st.integers(0, n - 1)) for n in per]
    frac = [draw(gen.floats(0.05, 0.95)) for _ in range(3)]
    return {"per_side": per, "lengths": lengths, "active_cell": active_cell, "frac": frac,
            "direction": draw(st.integers(0, 2)), "speed": draw(st.sampled_from([1.0, 0.5, 2.0])),
            "charge": draw(st.sampled_from([1.0, -1.0, 2.0, -0.5])), "target_charge": draw(st.sampled_from([1.0, -1.0])),
            "beta": draw(st.sampled_from([0.5, 1.0, 2.0])), "expo": draw(gen.log_uniform(1e-2, 3.0)),
            "ts": [float(draw(st.integers(0, 20))), draw(gen.floats(0.0, 0.999))],
            "composite": draw(st.booleans()),
            # a handler without a charge (every unit counts as 1) whose estimator has a negative correction factor
            "no_charge": draw(st.integers(0, 3)) == 0, "estimator_sign": draw(st.sampled_from([1.0, -1.0])),
            "leaf_shift": [draw(gen.floats(-0.7, 0.7)) for _ in range(3)],
            "probe_rows": draw(st.lists(st.integers(0, 10 ** 6), min_size=2, max_size=4)),
            "target_frac": [draw(gen.floats(0.1, 0.9)) for _ in range(3)]}


def body_veto(rec, **c):
    import contextlib
    import io
    import jellyfysh.setting as setting
    from jellyfysh.setting import hypercubic_setting, hypercuboid_setting
    from jellyfysh.activator.internal_state.cell_occupancy.cells.cuboid_periodic_cells import CuboidPeriodicCells
    from jellyfysh.base.node import Node
    from jellyfysh.base.unit import Unit
    from jellyfysh.base.time import Time
    from jellyfysh.event_handler import walker as mod_w
    from jellyfysh.event_handler import leaf_unit_cell_veto_event_handler as mod_leaf
    from jellyfysh.event_handler.abstracts import cell_veto_event_handler as mod_cv
    from jellyfysh.event_handler.abstracts import event_handler_with_bounding_potential as mod_bp
    from jellyfysh.potential.inverse_power_potential import InversePowerPotential
    from .. import stubs
    from ..oracles import energies
    setting.reset()
    lengths, per = c["lengths"], c["per_side"]
    if all(L == lengths[0] for L in lengths):
        hypercubic_setting.HypercubicSetting(beta=c["beta"], dimension=3, system_length=lengths[0])
    else:
        hypercuboid_setting.HypercuboidSetting(beta=c["beta"], dimension=3, system_lengths=list(lengths))
    no_charge = bool(c.get("no_charge"))
    composite = bool(c.get("composite")) and not no_charge
    setting.set_number_of_root_nodes(2)
    setting.set_number_of_nodes_per_root_node(2 if composite else 1)
    setting.set_number_of_node_levels(2 if composite else 1)
    cells = CuboidPeriodicCells(cells_per_side=list(per), neighbor_layers=1)
    pot = InversePowerPotential(power=1.0, prefactor=1.0)
    Estimator = stubs.make_estimator_class()
    if composite:
        from jellyfysh.event_handler.composite_object_cell_veto_event_handler import CompositeObjectCellVetoEventHandler
        from jellyfysh.lifting.inside_first_lifting import InsideFirstLifting
        handler = CompositeObjectCellVetoEventHandler(estimator=Estimator(pot, bound_function),
                                                      lifting=InsideFirstLifting(), charge="q")
    elif no_charge:
        handler = mod_leaf.LeafUnitCellVetoEventHandler(
            estimator=Estimator(pot, bound_function, sign=c.get("estimator_sign", 1.0)), charge=None)
    else:
        handler = mod_leaf.LeafUnitCellVetoEventHandler(estimator=Estimator(pot, bound_function), charge="q")
    with contextlib.redirect_stdout(io.StringIO()):
        handler.initialize(cells, 1)
    d, speed, qa = c["direction"], c["speed"], c["charge"]
    if no_charge:
        qa = c.get("estimator_sign", 1.0)      # the charge correction factor the handler works with
    by_id = {cell.identifier: cell for cell in cells.yield_cells()}
    acell = by_id[tuple(c["active_cell"])]
    apos = [acell.cell_min[i] + (acell.cell_max[i] - acell.cell_min[i]) * c["frac"][i] for i in range(3)]
    v = [0.0, 0.0, 0.0]
    v[d] = speed
    # harness-side table of bounds per relative offset
    zero = cells.zero_cell
    offsets = {}
    for cell in cells.yield_cells():
        if cell in cells.nearby_cells(zero):
            continue
        lo = tuple(cell.cell_min[i] - zero.cell_max[i] for i in range(3))
        hi = tuple(cell.cell_max[i] - zero.cell_min[i] for i in range(3))
        up, low = bound_function(lo, hi, d)
        offsets[cell.identifier] = max(up, 0.0) if qa > 0 else max(-low, 0.0)
    total = math.fsum(offsets.values())
    if not total > 0.0:
        rec.exclude("all offsets have zero rate")
        return
    want_time_disp = (c["expo"] / c["beta"]) / (total * abs(qa) * speed)

    def make_in_state():
        if not composite:
            return Node(Unit((0,), list(apos), {"q": qa}, list(v), Time(*c["ts"])), weight=1)
        # a composite object registered (cell level 1) in the cell of its centre `apos`; the active point mass sits up to
        # 0.7 cell sides away from the centre, i.e. often in a neighbouring cell or across the periodic boundary
        side = [lengths[i] / per[i] for i in range(3)]
        lp = [setting.periodic_boundaries.correct_position_entry(apos[i] + c["leaf_shift"][i] * side[i], i)
              for i in range(3)]
        op = [setting.periodic_boundaries.correct_position_entry(apos[i] - c["leaf_shift"][i] * side[i], i)
              for i in range(3)]
        root = Node(Unit((0,), list(apos), None, [x * 0.5 for x in v], Time(*c["ts"])), weight=1)
        root.add_child(Node(Unit((0, 0), lp, {"q": qa}, list(v), Time(*c["ts"])), weight=0.5))
        root.add_child(Node(Unit((0, 1), op, {"q": -qa}, None, None), weight=0.5))
        return root

    def propose(row, u):
        node = make_in_state()
        s_w = Scripted(choices=[row], uniforms=[u])
        s_cv = Scripted(expos=[c["expo"]])
        old = (mod_w.random, mod_cv.random)
        mod_w.random, mod_cv.random = s_w, s_cv
        try:
            t, extra = handler.send_event_time([node])
        finally:
            mod_w.random, mod_cv.random = old
        if s_w.leftover() or s_cv.leftover():
            raise HarnessError("cell-veto proposal drew fewer random numbers than scripted")
        rows = [e[1] for e in s_w.log if e[0] == "choice"][0]
        return t, extra[0], rows, node

    t, target, rows, node = propose(0, 0.5)
    got_disp = (t.quotient - c["ts"][0]) + (t.remainder - c["ts"][1])
    if abs(got_disp - want_time_disp) > 1e-9 * want_time_disp + 1e-12:
        rec.fail("veto/candidate-time", "candidate time displacement %r, expected e/(beta*sum_offsets max(B,0)*|q|*speed) "
                 "= %r (total bound rate %r, charge %r, speed %r)" % (got_disp, want_time_disp, total, qa, speed), c)
    prob = {}

    def offset_of(tcell):
        return tuple((tcell.identifier[i] - acell.identifier[i]) % per[i] for i in range(3))
    for row in range(rows):
        def f(u, row=row):
            return offset_of(propose(row, u)[1])
        steps, _ = bisect_steps(f)
        edges = [0.0] + [(s[0] + s[1]) / 2.0 for s in steps] + [1.0]
        values = [f(0.0)] + [s[3] for s in steps]
        for j, off in enumerate(values):
            prob[off] = prob.get(off, 0.0) + (edges[j + 1] - edges[j]) / rows
    for off in set(prob) | set(offsets):
        want = offsets.get(off, 0.0) / total
        if abs(prob.get(off, 0.0) - want) > 1e-10:
            rec.fail("veto/offset-probability", "target cell at offset %r from the active cell %r is proposed with "
                     "probability %r, its bound gives %r (grid %r, direction %d, charge %r)" % (
                         off, acell.identifier, prob.get(off, 0.0), want, per, d, qa), c)
    # confirmation against the bound stored for the sampled offset
    nt = any(x in (0, per[i] - 1) for i, x in enumerate(acell.identifier))
    # (a handler without a charge evaluates the true potential with unit charges, whatever the sign of its estimator's
    # correction factor: with a negative factor the stored bounds do not bound that rate, so only the proposals - candidate
    # time and offset probabilities - are decidable there; with a positive factor the target counts as charge 1 as well)
    skip_confirmation = composite or (no_charge and qa < 0.0)
    target_charge = 1.0 if no_charge else c["target_charge"]
    for row in ([] if skip_confirmation else c["probe_rows"]):
        t, tcell, _, node = propose(row % rows, 0.37)
        off = offset_of(tcell)
        bound = offsets[off] * abs(qa)
        tpos = [tcell.cell_min[i] + (tcell.cell_max[i] - tcell.cell_min[i]) * c["target_frac"][i] for i in range(3)]
        sep = setting.periodic_boundaries.separation_vector(node.value.position, tpos)
        q_true = -energies.inverse_power_grad(1.0, 1.0, qa * target_charge, sep, d) * speed
        thr = max(0.0, q_true) / bound

        def confirm(u):
            _, tc2, _, nd = propose(row % rows, 0.37)
            tnode = Node(Unit((1,), list(tpos), {"q": target_charge}, None, None), weight=1)
            s_bp = Scripted(uniforms=[u], strict=False)
            old = mod_bp.random
            mod_bp.random = s_bp
            try:
                out = handler.send_out_state(tnode)
            finally:
                mod_bp.random = old
            return tnode.value.velocity is not None
        lo, hi = thr * (1 - 1e-9) - 1e-12, thr * (1 + 1e-9) + 1e-12
        if 0.0 < lo < 1.0 and not confirm(lo):
            rec.fail("veto/confirmation-bound", "offset %r: event not confirmed at u=%r below q_true/(B*|q|) = %r: the "
                     "confirmation does not use the bound stored for this offset and direction" % (off, lo, thr), c)
        if hi < 1.0 and confirm(hi):
            rec.fail("veto/confirmation-bound", "offset %r: event confirmed at u=%r above q_true/(B*|q|) = %r" % (
                off, hi, thr), c)
    # empty target cell: the out-state is the unchanged in-state
    _, _, _, nd = propose(0, 0.5)
    out = handler.send_out_state(None)
    if len(out) != 1 or (not composite and out[0].value.velocity != v):
        rec.fail("veto/empty-target", "proposal into an empty cell changed the active unit", c)
    straddles = composite and cells.position_to_cell(list(make_in_state().children[0].value.position)) is not acell
    nt = nt or straddles
    rec.case("veto/%s%s/%s" % ("composite-straddling/" if straddles else ("composite/" if composite else ""),
                               "face" if nt else "interior", "negative-charge" if qa < 0 else "positive-charge"),
             (repr(sorted(c.items())),), nt, {"grid": per, "active_cell": acell.identifier, "offsets": len(offsets),
                                               "rows": rows, "direction": d, "charge": qa})


CHECKS.append(Check("cell_veto_handler", _unwrap(body_veto), lambda: {"c": veto_case()}, quick=25, thorough=150,
                    quick_shards=8))
