"""C16 - the cell grid partitions the box; neighbour/offset relations form a torus.

Oracle: integer index arithmetic modulo the number of cells per side + float adjacency (nextafter)."""
import itertools
import math
from fractions import Fraction

from hypothesis import strategies as st

from .. import gen
from ..runner import Check
from .C15 import length_strategy

PROPERTY = "C16"
RULE = ("Hypothesis draws dimension 1-3, cubic or cuboid box lengths, cells per side 1..12 plus {49,64} per axis "
        "(<= 2500 cells), neighbour layers 0..2, periodic or plain grid, and positions: uniform, k*side +-{0,1,2} "
        "ulp for every face, nextafter(L,0) and 0.0. Oracle: the returned cell's recorded extent contains the "
        "position; consecutive extents abut (nextafter(max_k)==min_k+1), start at 0 and end at nextafter(L,0), lie "
        "within 4 ulp of k*L/n; neighbour/nearby/relative/translate equal (id+-e) mod n, {torus distance<=layers}, "
        "(a-b) mod n, (c+r) mod n for all ordered pairs of cells (exhaustive up to 150 cells, sampled above). "
        "Non-trivial: a position within 2 ulp of a cell face or of the box top, or a pair of cells on opposite "
        "faces; distinct by (grid, position) or (grid, pair).")
ASSUMPTIONS = ["box lengths in [1e-3,1e3]; positions in [0, L) (what correct_position returns)",
               "cells_per_side are positive integers"]


def init_setting(lengths):
    import jellyfysh.setting as setting
    from jellyfysh.setting import hypercubic_setting, hypercuboid_setting
    setting.reset()
    if all(L == lengths[0] for L in lengths):
        hypercubic_setting.HypercubicSetting(beta=1.0, dimension=len(lengths), system_length=lengths[0])
    else:
        hypercuboid_setting.HypercuboidSetting(beta=1.0, dimension=len(lengths), system_lengths=list(lengths))
    setting.set_number_of_root_nodes(2)
    setting.set_number_of_nodes_per_root_node(1)
    setting.set_number_of_node_levels(1)


@st.composite
def grid(draw, max_cells=2500):
    dim = draw(st.integers(1, 3))
    if draw(st.booleans()):
        lengths = [draw(length_strategy())] * dim
    else:
        lengths = [draw(length_strategy()) for _ in range(dim)]
    per_side = []
    total = 1
    for _ in range(dim):
        n = draw(st.one_of(st.integers(1, 12), st.sampled_from([3, 6, 7, 49, 64])))
        while total * n > max_cells and n > 1:
            n = max(1, n // 2)
        per_side.append(n)
        total *= n
    short = draw(st.booleans()) and all(n == per_side[0] for n in per_side)
    layers = draw(st.integers(0, 2))
    periodic = draw(st.sampled_from([True, True, False]))
    return {"lengths": lengths, "per_side": per_side, "short": short, "layers": layers, "periodic": periodic}


def build_cells(g):
    from jellyfysh.activator.internal_state.cell_occupancy.cells.cuboid_cells import CuboidCells
    from jellyfysh.activator.internal_state.cell_occupancy.cells.cuboid_periodic_cells import CuboidPeriodicCells
    init_setting(g["lengths"])
    arg = [g["per_side"][0]] if g["short"] else list(g["per_side"])
    cls = CuboidPeriodicCells if g["periodic"] else CuboidCells
    return cls(cells_per_side=arg, neighbor_layers=g["layers"])


@st.composite
def position_case(draw):
    g = draw(grid())
    positions = []
    for _ in range(draw(st.integers(1, 6))):
        p = []
        for L, n in zip(g["lengths"], g["per_side"]):
            side = L / n
            kind = draw(st.sampled_from(["uniform", "face", "face", "top", "zero"]))
            if kind == "uniform":
                x = draw(gen.floats(0.0, math.nextafter(L, 0.0)))
            elif kind == "face":
                k = draw(st.integers(0, n))
                base = draw(st.sampled_from([k * side, k * L / n, (k * L) / n]))
                x = gen.step(base, draw(st.integers(-2, 2)))
            elif kind == "top":
                x = gen.step(L, -draw(st.integers(1, 3)))
            else:
                x = draw(st.sampled_from([0.0, 5e-324]))
            p.append(min(max(x, 0.0), math.nextafter(L, 0.0)))
        positions.append(p)
    g["positions"] = positions
    return g


def body_positions(rec, lengths, per_side, short, layers, periodic, positions):
    g = {"lengths": lengths, "per_side": per_side, "short": short, "layers": layers, "periodic": periodic}
    args = dict(g, positions=positions)
    cells = build_cells(g)
    all_cells = list(cells.yield_cells())
    dim = len(lengths)
    if len(all_cells) != math.prod(per_side) or len({c.identifier for c in all_cells}) != len(all_cells):
        rec.fail("grid/count", "yield_cells gives %d cells (%d identifiers) for %r" % (
            len(all_cells), len({c.identifier for c in all_cells}), per_side), args)
    # extents per axis: identical for all cells sharing the axis index; abutting; covering [0, L)
    for axis in range(dim):
        ext = {}
        for c in all_cells:
            k = c.identifier[axis]
            e = (c.cell_min[axis], c.cell_max[axis])
            if ext.setdefault(k, e) != e:
                rec.fail("grid/extent-inconsistent", "axis %d index %d has extents %r and %r" % (axis, k, ext[k], e),
                         args)
        n, L = per_side[axis], lengths[axis]
        if sorted(ext) != list(range(n)):
            rec.fail("grid/indices", "axis %d has indices %r" % (axis, sorted(ext)), args)
        if ext[0][0] != 0.0:
            rec.fail("grid/start", "axis %d: first cell starts at %r" % (axis, ext[0][0]), args)
        if ext[n - 1][1] < math.nextafter(L, 0.0):
            rec.fail("grid/top-not-covered", "axis %d (L=%r, %d cells): last cell ends at %r, below the largest "
                     "position in the box %r" % (axis, L, n, ext[n - 1][1], math.nextafter(L, 0.0)), args)
        for k in range(n - 1):
            if math.nextafter(ext[k][1], math.inf) != ext[k + 1][0]:
                rec.fail("grid/gap-or-overlap", "axis %d: cell %d ends at %r, cell %d starts at %r" % (
                    axis, k, ext[k][1], k + 1, ext[k + 1][0]), args)
        for k in range(1, n):
            ideal = Fraction(k) * Fraction(L) / n
            if abs(Fraction(ext[k][0]) - ideal) > 4 * Fraction(math.ulp(L)):
                rec.fail("grid/face-misplaced", "axis %d: face %d at %r, expected %r" % (axis, k, ext[k][0],
                                                                                    float(ideal)), args)
    by_id = {c.identifier: c for c in all_cells}
    for p in positions:
        cell = cells.position_to_cell(list(p))
        nt = False
        for axis in range(dim):
            if not (cell.cell_min[axis] <= p[axis] <= cell.cell_max[axis]):
                rec.fail("position/outside-extent", "position %r mapped to cell %r with extent [%r, %r] on axis %d "
                         "(L=%r, cells %r)" % (p, cell.identifier, cell.cell_min[axis], cell.cell_max[axis], axis,
                                               lengths[axis], per_side), args)
            side = lengths[axis] / per_side[axis]
            k = round(p[axis] / side)
            nt = nt or abs(p[axis] - k * side) <= 4 * math.ulp(lengths[axis])
        if by_id.get(cell.identifier) is not cell:
            rec.fail("position/foreign-cell", "position_to_cell returned a cell that yield_cells does not list", args)
        rec.case("near-face" if nt else "interior", (tuple(lengths), tuple(per_side), tuple(p)), nt,
                 {"lengths": lengths, "per_side": per_side, "position": p, "cell": cell.identifier})


@st.composite
def relation_case(draw):
    g = draw(grid(max_cells=1200))
    g["pair_seed"] = draw(st.integers(0, 2 ** 32))
    return g


def torus_dist(a, b, n):
    d = (a - b) % n
    return min(d, n - d)


def body_relations(rec, lengths, per_side, short, layers, periodic, pair_seed):
    g = {"lengths": lengths, "per_side": per_side, "short": short, "layers": layers, "periodic": periodic}
    args = dict(g, pair_seed=pair_seed)
    cells = build_cells(g)
    all_cells = list(cells.yield_cells())
    by_id = {c.identifier: c for c in all_cells}
    dim = len(lengths)
    ids = list(itertools.product(*[range(n) for n in per_side]))
    if set(ids) != set(by_id):
        rec.fail("grid/identifiers", "identifiers are not the index tuples of the grid", args)
    # neighbour and nearby for every cell
    for ident in ids:
        c = by_id[ident]
        for d in range(dim):
            for positive in (True, False):
                got = cells.neighbor_cell(c, d, positive)
                step = 1 if positive else -1
                if periodic:
                    want = tuple((ident[i] + step) % per_side[i] if i == d else ident[i] for i in range(dim))
                else:
                    raw = ident[d] + step
                    want = None if not 0 <= raw < per_side[d] else tuple(
                        raw if i == d else ident[i] for i in range(dim))
                got_id = None if got is None else got.identifier
                if got_id != want:
                    rec.fail("relation/neighbor", "neighbor_cell(%r, %d, %r) = %r, expected %r (cells %r)" % (
                        ident, d, positive, got_id, want, per_side), args)
        near = {x.identifier for x in cells.nearby_cells(c)}
        if periodic:
            want = {o for o in itertools.product(*[
                sorted({(ident[i] + k) % per_side[i] for k in range(-layers, layers + 1)}) for i in range(dim)])}
        else:
            want = {o for o in itertools.product(*[
                [ident[i] + k for k in range(-layers, layers + 1) if 0 <= ident[i] + k < per_side[i]]
                for i in range(dim)])}
        if near != want:
            rec.fail("relation/nearby", "nearby_cells(%r) = %r, expected %r (cells %r, layers %d)" % (
                ident, sorted(near), sorted(want), per_side, layers), args)
        if ident not in near:
            rec.fail("relation/nearby-not-reflexive", "cell %r not in its own nearby cells" % (ident,), args)
    # nearby symmetric
    for ident in ids:
        for o in cells.nearby_cells(by_id[ident]):
            if by_id[ident] not in cells.nearby_cells(o):
                rec.fail("relation/nearby-not-symmetric", "%r near %r but not conversely" % (o.identifier, ident),
                         args)
    if not periodic:
        rec.case("plain-grid", (tuple(lengths), tuple(per_side), layers), len(ids) > 1, dict(g))
        return
    if cells.zero_cell.identifier != tuple([0] * dim):
        rec.fail("relation/zero-cell", "zero cell is %r" % (cells.zero_cell.identifier,), args)
    if len(ids) <= 150:
        pairs = itertools.product(ids, ids)
        exhaustive = True
    else:
        import random as _r
        r = _r.Random(pair_seed)  # derived from a Hypothesis-drawn integer: reproducible from the case
        faces = [i for i in ids if any(i[k] in (0, per_side[k] - 1) for k in range(dim))]
        pairs = [(r.choice(ids), r.choice(ids)) for _ in range(150)] + [(r.choice(faces), r.choice(faces))
                                                                         for _ in range(150)]
        exhaustive = False
    for a, b in pairs:
        rel = cells.relative_cell(by_id[a], by_id[b])
        want = tuple((a[i] - b[i]) % per_side[i] for i in range(dim))
        if rel.identifier != want:
            rec.fail("relation/relative", "relative_cell(%r, %r) = %r, expected %r (cells %r, L %r)" % (
                a, b, rel.identifier, want, per_side, lengths), args)
        back = cells.translate(by_id[b], rel)
        if back.identifier != a:
            rec.fail("relation/translate-inverse", "translate(%r, relative_cell(%r, %r)) = %r" % (
                b, a, b, back.identifier), args)
        tr = cells.translate(by_id[a], by_id[b])
        want_t = tuple((a[i] + b[i]) % per_side[i] for i in range(dim))
        if tr.identifier != want_t:
            rec.fail("relation/translate", "translate(%r, %r) = %r, expected %r (cells %r)" % (
                a, b, tr.identifier, want_t, per_side), args)
        opposite = any(per_side[i] > 1 and {a[i], b[i]} == {0, per_side[i] - 1} for i in range(dim))
        rec.case("pair-opposite-faces" if opposite else "pair", (tuple(lengths), tuple(per_side), a, b), opposite,
                 {"lengths": lengths, "per_side": per_side, "a": a, "b": b, "relative": rel.identifier})
    rec.notes.append("pair enumeration exhaustive for grids <= 150 cells") if exhaustive else None


def _unwrap(f):
    return lambda rec, c=None, **kw: f(rec, **(c if c is not None else kw))


CHECKS = [
    Check("positions", _unwrap(body_positions), lambda: {"c": position_case()}, quick=500, thorough=4000),
    Check("relations", _unwrap(body_relations), lambda: {"c": relation_case()}, quick=200, thorough=1500),
]
