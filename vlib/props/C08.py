"""C08 - history property decided by the monitor (vlib/monitor.py) on instrumented runs of shipped and generated
configurations (vlib/configs.py, vlib/engine.py)."""
from ..configs import config_case
from ..runner import Check
from ._history import run_history

PROPERTY = "C08"
RULE = 'Same generator as C07. Oracle at each commit of an interaction or cell-veto handler: every unit of the in-state snapshot taken when its candidate was computed has the same velocity in the global state just before the commit and lies on the same straight line (same position if resting). The same comparison is made for every candidate still pending when the mediator asks the scheduler for the next event (signatures pending-stale-*), and the returned entry must carry the current candidate time of its handler. Non-trivial: history with >=1 committed interaction event whose candidate was computed >=2 commits earlier; distinct by (config, edits, seed, budget).'
ASSUMPTIONS = ["configurations are the runnable shipped .ini files verbatim, or shipped files with parameter edits "
               "only (particle number with number_event_handlers scaled, box, beta, chain/sampling times, grids, "
               "scheduler, speed, initial direction); generated wirings are limited to the families G4-G7 derived from "
               "shipped files (DESIGN.md 8.5) and to a second sampling tagger copied from the shipped one",
               "observation by wrapping instance attributes of state handler, scheduler, activator, input-output "
               "handler and event handlers; private reads: Mediator._state_handler/_scheduler/_activator/"
               "_input_output_handler, Activator._taggers/_internal_states"]
NT = lambda m: m.stats['interaction_commits_age>=2'] >= 1
KW = {'sampling_focus': True, 'small_sampling': True}


def body(rec, c):
    run_history(rec, PROPERTY, c, NT)


CHECKS = [Check("history", body, lambda: {"c": config_case(**KW)}, quick=10, thorough=160, quick_shards=16,
                thorough_shards=16, shrink_quick=False)]
