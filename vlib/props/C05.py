"""C05 - lifting schemes route probability flow so that every unit's outflow is matched.

Oracle: exact integration of the selection step function over the uniform draw (thresholds located by bisection
under a scripted `random`), compared with the magnitudes of the negative derivatives (global balance)."""
import math

from hypothesis import strategies as st

from .. import gen
from ..build import HarnessError
from ..runner import Check
from ..scripted_random import Scripted, bisect_steps

PROPERTY = "C05"
RULE = ("Hypothesis draws a table of 2..12 factor derivatives (integers, floats over 12 decades, exact zeros, "
        "near-cancelling pairs; last entry = -fsum(rest) so the table sums to zero within an ulp; in half of the cases the whole table is multiplied by a "
        "power of two 2^-200..2^200, which keeps entries and sum exact), an insertion "
        "order, a scheme (inside-first, outside-first, ratio) and interior probe draws. For every positive entry as "
        "the active unit the selection is evaluated under a scripted uniform draw; its break points in u are located "
        "by bisection to adjacent floats and integrated exactly. Oracle: sum over active units a of d_a*P(select k|a) "
        "== |d_k| within 16*n*eps*S+|sum d|; no unit with derivative >= 0 is ever returned at any evaluated draw "
        "(end points u=0 and u=1 included); a fresh and a reused instance agree; a table without an active unit "
        "raises LiftingSchemeError. Non-trivial: >=2 positive and >=2 negative entries; distinct by (scheme, table).")
ASSUMPTIONS = ["callers use the protocol reset -> insert* -> get_active_identifier once, the active unit has a "
               "positive derivative (asserted by the code)",
               "random.uniform(a,b) == a+(b-a)*random() as in CPython; the harness substitutes the module attribute "
               "`random` of jellyfysh.lifting.lifting / ratio_lifting with a scripted source"]

SCHEMES = ["inside_first", "outside_first", "ratio"]


def magnitude():
    return st.one_of(st.integers(1, 20).map(float), gen.log_uniform(1e-6, 1e6), gen.floats(0.01, 10.0))


@st.composite
def table_case(draw):
    n = draw(st.integers(2, 12))
    vals = []
    for _ in range(n - 1):
        kind = draw(st.sampled_from(["pos", "neg", "zero", "cancel"]))
        if kind == "zero":
            vals.append(0.0)
        elif kind == "cancel" and vals:
            vals.append(-gen.step(vals[-1], draw(st.integers(-2, 2))) if vals[-1] != 0.0 else 0.0)
        else:
            m = draw(magnitude())
            vals.append(m if kind != "neg" else -m)
    last = -math.fsum(vals)
    if draw(st.booleans()) and n >= 3:
        # split the balancing entry into two so that the closing entry is not always alone
        f = draw(gen.floats(0.1, 0.9))
        vals[-1:] = [vals[-1], last * f]
        last = -math.fsum(vals)
        if len(vals) > 11:
            vals.pop(0)
            last = -math.fsum(vals)
    vals.append(last)
    perm = draw(st.permutations(list(range(len(vals)))))
    table = [vals[i] for i in perm]
    # the statement is about the table whatever its overall scale: derivatives of far-away or weakly charged units are
    # many orders of magnitude below 1 (a power of two keeps every entry and the zero sum exact)
    scale_exp = draw(st.one_of(st.just(0), st.just(0), st.integers(-200, 200), st.sampled_from([-52, -53, -60, -80, 60])))
    if scale_exp:
        table = [math.ldexp(x, scale_exp) for x in table]
    scheme = draw(st.sampled_from(SCHEMES))
    probes = draw(st.lists(st.one_of(gen.floats(0.0, 1.0), st.sampled_from([0.0, 1.0, 0.5])), min_size=3,
                           max_size=6))
    return {"scheme": scheme, "table": table, "probes": probes}


def modules():
    from jellyfysh.lifting import lifting as base_mod, ratio_lifting as ratio_mod
    from jellyfysh.lifting.inside_first_lifting import InsideFirstLifting
    from jellyfysh.lifting.outside_first_lifting import OutsideFirstLifting
    from jellyfysh.lifting.ratio_lifting import RatioLifting
    return base_mod, ratio_mod, {"inside_first": InsideFirstLifting, "outside_first": OutsideFirstLifting,
                                 "ratio": RatioLifting}


class Selector(object):
    """f(u) -> selected index for a fixed (scheme, table, active) with all random draws scripted."""

    def __init__(self, scheme, table, active, instance=None):
        self.base_mod, self.ratio_mod, classes = modules()
        self.scheme, self.table, self.active = scheme, table, active
        self.instance = instance if instance is not None else classes[scheme]()
        self.evaluations = 0

    def __call__(self, u):
        if self.scheme == "ratio":
            s1, s2 = Scripted(uniforms=[0.5]), Scripted(uniforms=[u])
        else:
            s1, s2 = Scripted(uniforms=[u]), Scripted()
        old1, old2 = self.base_mod.random, self.ratio_mod.random
        self.base_mod.random, self.ratio_mod.random = s1, s2
        try:
            lift = self.instance
            lift.reset()
            for i, d in enumerate(self.table):
                lift.insert(d, (i,), i == self.active)
            ident = lift.get_active_identifier()
        finally:
            self.base_mod.random, self.ratio_mod.random = old1, old2
        if s1.leftover() or s2.leftover():
            raise HarnessError("lifting consumed fewer random draws than scripted")
        self.evaluations += 1
        return ident[0]


def body_flow(rec, scheme, table, probes):
    args = {"scheme": scheme, "table": table, "probes": probes}
    n = len(table)
    positives = [i for i, d in enumerate(table) if d > 0.0]
    negatives = [i for i, d in enumerate(table) if d < 0.0]
    if not positives or not negatives:
        rec.exclude("no positive or no negative entry")
        return
    S = math.fsum(table[i] for i in positives)
    residual = abs(math.fsum(table))
    tol = 16 * n * 2.220446049250313e-16 * S + residual
    _, _, classes = modules()
    inflow = [0.0] * n
    total_evals = 0
    for a in positives:
        sel = Selector(scheme, table, a)

        def f(u, sel=sel, a=a):
            k = sel(u)
            if not table[k] < 0.0:
                rec.fail("selected-nonnegative/%s" % ("endpoint" if u in (0.0, 1.0) else "interior"),
                         "%s lifting returned unit %d with derivative %r (active %d, u=%r, table %r)"
                         % (scheme, k, table[k], a, u, table), dict(args, active=a, u=u))
            return k
        steps, _ = bisect_steps(f)
        # segments between break points
        edges = [0.0] + [(s[0] + s[1]) / 2.0 for s in steps] + [1.0]
        values = [f(0.0)] + [s[3] for s in steps]
        for j, v in enumerate(values):
            inflow[v] += table[a] * (edges[j + 1] - edges[j])
        # interior probes: the located step function must predict them (no hidden extra steps)
        fresh = Selector(scheme, table, a)
        for u in probes:
            k = f(u)
            j = 0
            while j < len(steps) and u > steps[j][0]:
                j += 1
            on_break = any(s[0] <= u <= s[1] for s in steps)
            if not on_break and k != values[j]:
                rec.fail("not-a-step-function", "%s lifting: draw u=%r selects %d but the bracketing located steps "
                         "predict %d (active %d, table %r)" % (scheme, u, k, values[j], a, table),
                         dict(args, active=a, u=u))
            k2 = fresh(u)
            if k2 != k:
                rec.fail("instance-dependence", "%s lifting: a reused instance selects %d, a fresh one %d for the "
                         "same table and draw u=%r" % (scheme, k, k2, u), dict(args, active=a, u=u))
        total_evals += sel.evaluations
    for k in range(n):
        want = -table[k] if table[k] < 0.0 else 0.0
        if abs(inflow[k] - want) > tol:
            rec.fail("flow-imbalance", "%s lifting: unit %d receives flow %r but its negative derivative has "
                     "magnitude %r (tolerance %.3e, table %r)" % (scheme, k, inflow[k], want, tol, table), args)
    # no active unit -> LiftingSchemeError
    from jellyfysh.base.exceptions import LiftingSchemeError
    lift = classes[scheme]()
    lift.reset()
    for i, d in enumerate(table):
        lift.insert(d, (i,), False)
    try:
        lift.get_active_identifier()
    except LiftingSchemeError:
        pass
    else:
        rec.fail("no-active-no-error", "%s lifting returned an identifier although no active unit was inserted"
                 % scheme, args)
    nt = len(positives) >= 2 and len(negatives) >= 2
    zeros = sum(1 for d in table if d == 0.0)
    biggest = max(abs(d) for d in table)
    label = "%s/%s%s%s" % (scheme, "multi" if nt else "simple", "+zeros" if zeros else "",
                           "/tiny-scale" if biggest < 1e-12 else ("/huge-scale" if biggest > 1e12 else ""))
    rec.case(label, (scheme, tuple(table)), nt, {"scheme": scheme, "table": table, "inflow": inflow,
                                                "selector_evaluations": total_evals})


def _unwrap(f):
    return lambda rec, c=None, **kw: f(rec, **(c if c is not None else kw))


CHECKS = [Check("flow_balance", _unwrap(body_flow), lambda: {"c": table_case()}, quick=2500, thorough=12000,
                quick_shards=12)]

from . import C05_handlers  # noqa: E402  (handler part: the order in which the composite-object handlers fill the scheme)
CHECKS = CHECKS + C05_handlers.CHECKS
RULE += (" Sub-check handler_flow: one configuration of two molecules (drawn positions, charge patterns, direction) "
         "(two- or three-site molecules) is held fixed and each point mass with positive factor derivative is made the active unit of the real "
         "TwoCompositeObjectSummedBoundingPotentialEventHandler in turn (in-state put back to the common positions before the out-state is asked for, "
         "confirmation draw 0); the lifting draw is swept (65-point grid + bisection of the break points) and the "
         "lifted inflow sum_a max(q_a,0) P(a->k) is compared with |q_k| for every negative k, the q from the "
         "independent Ewald oracle. Non-trivial: >=2 positive derivatives.")
