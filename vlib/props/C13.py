"""C13 - in-states are isolated copies; only commits change the global state.
(b) run part: decided by the history monitor; (a) stateful part: see C13_stateful (added to CHECKS when present)."""
from ..configs import config_case
from ..runner import Check
from ._history import run_history

PROPERTY = "C13"
RULE = ("(a) Hypothesis rule-based state machine over a real TreeStateHandler and a dictionary model: rules extract / "
        "mutate (element assignment, list replacement, Time.update, None) / insert / extract-active on drawn trees "
        "(1-2 levels, 1-4 roots, 1-4 children, dimension 1-3); invariants: an extracted branch holds the node, its "
        "ancestors and all descendants with the model's values; mutation changes neither the global state nor other "
        "live branches; after insert exactly the inserted values are read back; the active part equals the "
        "independently moving units. (b) generator of C07: the global state snapshot taken after commit i equals "
        "the one taken just before commit i+1 bit for bit. Non-trivial: (a) a run with two live branches of "
        "overlapping identifiers and an insert between their mutations, (b) a history with >=50 commits and >=1 "
        "lifting; distinct by the step sequence / (config, edits, seed, budget).")
ASSUMPTIONS = ["a branch that was inserted is spent: the handler API aliases its lists into the global state by design, "
               "mutating it afterwards is outside the contract and not asserted on",
               "run part: same instrumentation as C07"]


def body(rec, c):
    run_history(rec, PROPERTY, c, lambda m: m.stats["commits"] >= 50 and m.stats["liftings"] >= 1)


CHECKS = [Check("history", body, lambda: {"c": config_case()}, quick=6, thorough=120, quick_shards=8,
                thorough_shards=16, shrink_quick=False)]
try:
    from .C13_stateful import CHECKS as _S
    CHECKS = _S + CHECKS
except ImportError:
    pass
