"""C12 - history property decided by the monitor (vlib/monitor.py) on instrumented runs of shipped and generated
configurations (vlib/configs.py, vlib/engine.py)."""
from ..configs import config_case
from ..runner import Check
from ._history import run_history

PROPERTY = "C12"
RULE = 'Generator of C07 restricted to configurations with composite objects (dipoles, water, hard-disk dipole; N up to 4). Oracle per commit and on the initial state, per object: stored velocity == weighted sum of point-mass velocities (absent iff none moves, 1e-12*speed); stored position advanced to the event time == weighted barycentre of the nearest images of its point masses advanced from their own time stamps (1e-8 L). Non-trivial: history with >=1 lifting and >=1 end of chain; distinct by (config, edits, seed, budget).'
ASSUMPTIONS = ["configurations are the runnable shipped .ini files verbatim, or shipped files with parameter edits "
               "only (particle number with number_event_handlers scaled, box, beta, chain/sampling times, grids, "
               "scheduler, speed, initial direction); generated wirings are limited to the families G4-G7 derived from "
               "shipped files (DESIGN.md 8.5) and to a second sampling tagger copied from the shipped one",
               "observation by wrapping instance attributes of state handler, scheduler, activator, input-output "
               "handler and event handlers; private reads: Mediator._state_handler/_scheduler/_activator/"
               "_input_output_handler, Activator._taggers/_internal_states"]
NT = lambda m: m.stats['composite_checks'] > 0 and m.stats['liftings'] >= 1 and m.stats['commit/end_of_chain'] >= 1
KW = {'composites_only': True, 'g4_one_in': 4, 'g7_one_in': 4}


def body(rec, c):
    run_history(rec, PROPERTY, c, NT)


CHECKS = [Check("history", body, lambda: {"c": config_case(**KW)}, quick=10, thorough=160, quick_shards=16,
                thorough_shards=16, shrink_quick=False)]
