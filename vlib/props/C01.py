"""C01 - sampled configurations follow the Boltzmann distribution of the configured model.

Seeded Monte-Carlo replicas of every runnable algorithmic variant, observables read from the files the shipped
output handlers write, compared with independent references by a replica z-test (vlib/oracles/stats.py).
This is a statistical decision at a stated power, not a proof of convergence."""
import glob
import math
import os
import shutil

from .. import build, configs, engine
from ..build import HarnessError
from ..oracles import stats
from ..runner import Check, Violation, derive_seed

PROPERTY = "C01"
RULE = ("For each algorithmic variant (shipped configurations of the Coulomb-atom, dipole, single-water and hard-disk-"
        "dipole models; a harness-built soft pair driven only by the directly invertible pair handler, heap and list scheduler, "
        "beta in {0.5, 2}) R independent replicas (own seed and random initial configuration, 10% burn-in discarded) are run "
        "to a fixed number of samples. Observables (pair separations, bond lengths and angles, dipole length and "
        "orientation) are read from the output handlers' files and binned into 8 bins equiprobable under the "
        "reference: shipped reversible-MC reference tables, numerical quadrature of r^2 exp(-beta U) for the soft "
        "pair, closed form for the hard-disk dipole; hard-core bounds are exact predicates. Violation iff "
        "max_k |z_k| > 6.5 with z_k = (mean_r f_rk - 1/8)/max(sd_r/sqrt(R), binomial floor). Non-trivial: a "
        "replica with >= 100 samples after burn-in; distinct by (variant, observable, replica seed).")
ASSUMPTIONS = ["statistical oracle: detects shifts of a bin probability of about 0.03 (R=16 x 300 samples), not "
               "perturbations below ~1% of a bin; false-alarm probability < 1e-7 per comparison at threshold 6.5",
               "shipped Reference*.dat tables (reversible Monte Carlo by the authors) are trusted as independent "
               "references; the soft-sphere and hard-disk references are computed by the harness"]

THRESHOLD = 6.5
REF = "output/2018_JCP_149_064113/"


def pkg(path):
    return os.path.join(build.scratch_root(), "jellyfysh", path)


def soft_text(beta, scheduler, k_harmonic=200.0):
    """Harness-built soft pair: the shipped dipole atom-factor wiring with a single composite object, so that only the
    directly invertible pair handlers (harmonic + r^-6 repulsion, TwoLeafUnitEventHandler) act.  (A plain inverse-power
    pair potential between different objects in a periodic box would not be a valid model: its candidate events are
    not recomputed when the minimum image changes.)"""
    text = configs.shipped_text("2018_JCP_149_064113/dipoles/atom_factors.ini")
    text = configs.set_option(text, "RandomInputHandler", "number_of_root_nodes", "1")
    text = configs.set_option(text, "HypercubicSetting", "beta", repr(beta))
    text = configs.set_option(text, "SingleProcessMediator", "scheduler", scheduler)
    text = configs.set_option(text, "HarmonicPotential", "prefactor", repr(k_harmonic))
    # the shipped factor set applies the r^-6 repulsion between different objects only; the harness's factor file makes
    # it (and the harmonic bond) act inside the single pair
    path = os.path.join(build.scratch_root(), "verif_soft_pair_factors.txt")
    if not os.path.exists(path):
        with open(path, "w") as f:
            f.write("[0, 1], Harmonic\n[0, 1], Repulsive\n")
    text = configs.set_option(text, "FactorTypeMaps", "filename", path)
    return text


def soft_reference(beta, k_harmonic=200.0, r0=0.1, k_rep=1e-6, n=200000, rmax=0.5):
    """CDF of the bond length: density r^2 exp(-beta (k (r-r0)^2 + k_rep / r^6)) by the midpoint rule."""
    import numpy as np
    r = (np.arange(n) + 0.5) * (rmax / n)
    w = r * r * np.exp(-beta * (k_harmonic * (r - r0) ** 2 + k_rep / r ** 6))
    c = np.cumsum(w)
    c /= c[-1]
    idx = np.linspace(0, n - 1, 4000).astype(int)
    return stats.TableCDF(list(r[idx]), list(c[idx]))


class BondSampler(engine.Monitor):
    """Harness-side sampler attached at the output seam: bond length of the single pair from the written state."""

    def __init__(self):
        self.values = []

    def on_write(self, ctx, name, args):
        if not args or not isinstance(args[0], (list, tuple)):
            return
        import jellyfysh.setting as setting
        for root in args[0]:
            if len(root.children) == 2:
                s = setting.periodic_boundaries.separation_vector(root.children[0].value.position,
                                                                  root.children[1].value.position)
                self.values.append(math.sqrt(sum(x * x for x in s)))


def variants(tier):
    """(name, ini text, sampling section, samples per replica, replicas, observables)
    observable: (label, file glob relative to the run's workdir, column extractor, reference factory, exact bounds)"""
    quick = tier == "quick"
    R = 16 if quick else 40
    out = []
    coul_ref = lambda: stats.load_table(pkg(REF + "coulomb_atoms/ReferenceDataCoulombAtoms.dat"))
    d13 = lambda: stats.load_table(pkg(REF + "dipoles/ReferenceDataDipoles_13.dat"))
    d14 = lambda: stats.load_table(pkg(REF + "dipoles/ReferenceDataDipoles_14.dat"))
    sep = ("separation", "*Separation*.dat", None, coul_ref, None)
    for name, n in (("power_bounded", 400 if quick else 1500), ("cell_bounded", 250 if quick else 1000)):
        out.append(("coulomb_atoms/" + name, configs.shipped_text("2018_JCP_149_064113/coulomb_atoms/%s.ini" % name),
                    n, R, [sep]))
    if not quick:
        out.append(("coulomb_atoms/cell_veto", configs.shipped_text("2018_JCP_149_064113/coulomb_atoms/cell_veto.ini"),
                    120, R, [sep]))
    dip = [("separation_13", "*_13.dat", None, d13, None), ("separation_14", "*_14.dat", None, d14, None)]
    names = ["dipole_factors_inside_first", "dipole_factors_outside_first", "dipole_factors_ratio", "atom_factors",
             "dipole_motion"]
    if not quick:
        names += ["cell_bounded"]
    for name in names:
        out.append(("dipoles/" + name, configs.shipped_text("2018_JCP_149_064113/dipoles/%s.ini" % name),
                    250 if quick else 800, R, dip))
    water = [("bond_length", "*Bonds*Length*.dat", None,
              lambda: stats.load_table(pkg(REF + "water/ReferenceLengthSingleMolecule.dat")), None),
             ("bond_angle", "*Bonds*Angle*.dat", None,
              lambda: stats.load_table(pkg(REF + "water/ReferenceAngleSingleMolecule.dat")), None)]
    out.append(("water/single_molecule", configs.shipped_text("2018_JCP_149_064113/water/single_molecule.ini"),
                250 if quick else 800, R, water))
    rmin, rmax = 0.6666666666666666, 1.333333333333333
    hd = [("dipole_length", "*Polarization*.dat", lambda cols: math.hypot(cols[0], cols[1]),
           lambda: stats.FunctionCDF(lambda r: (r * r - rmin * rmin) / (rmax * rmax - rmin * rmin), rmin, rmax),
           (rmin * (1 - 1e-9), rmax * (1 + 1e-9))),
          ("dipole_angle", "*Polarization*.dat", lambda cols: math.atan2(cols[1], cols[0]),
           lambda: stats.FunctionCDF(lambda a: (a + math.pi) / (2 * math.pi), -math.pi, math.pi), None)]
    out.append(("hard_disk_dipoles/single_hard_disk_dipole",
                configs.shipped_text("hard_disk_dipoles/single_hard_disk_dipole.ini"), 400 if quick else 1500, R, hd))
    for beta, sched, kh in ((2.0, "heap_scheduler", 200.0), (0.5, "list_scheduler", 200.0)):
        out.append(("soft_pair/beta%g_%s" % (beta, sched.split("_")[0]), soft_text(beta, sched, kh),
                    400 if quick else 1500, R,
                    [("bond_length", "sampler", None, (lambda b=beta, k=kh: soft_reference(b, k)), None)]))
    return out


def read_column(path, extractor):
    vals = []
    with open(path) as f:
        for line in f:
            if line.startswith("#") or not line.strip():
                continue
            cols = [float(x) for x in line.split()]
            vals.append(extractor(cols) if extractor else cols[0])
    return vals


def run_variant(rec, seed, n, tier, shard):
    vs = variants(tier)
    if shard >= len(vs):
        return
    name, text, n_samples, R, observables = vs[shard]
    # sampling interval of the (only) sampling handler
    secs = configs.sections_with(text, "sampling_interval")
    if len(secs) != 1:
        raise HarnessError("variant %s has %d sampling handlers" % (name, len(secs)))
    interval = float(secs[0][1])
    burn = max(5, n_samples // 10)
    end = interval * (n_samples + burn + 0.5)
    text = configs.set_option(text, "FinalTimeEndOfRunEventHandler", "end_of_run_time", repr(end))
    data = {obs[0]: [] for obs in observables}
    per_sample = {}
    for r in range(R):
        rseed = derive_seed(seed, "C01", name, r) % (2 ** 31)
        sampler = None
        if any(o[1] == "sampler" for o in observables):
            sampler = BondSampler()
            ctx, _ = engine.run(text, rseed, None, sampler)
            workdir = None
        else:
            workdir, ctx = engine.run_plain(text, rseed)
        try:
            for label, pattern, extractor, ref_factory, bounds in observables:
                if pattern == "sampler":
                    vals = list(sampler.values)
                else:
                    files = sorted(glob.glob(os.path.join(workdir, pattern)))
                    if len(files) != 1:
                        raise HarnessError("variant %s: %d files match %s (%r)" % (name, len(files), pattern,
                                                                                   os.listdir(workdir)))
                    vals = read_column(files[0], extractor)
                k = max(1, round(len(vals) / (n_samples + burn)))   # values written per sample
                per_sample[label] = k
                vals = vals[burn * k:]
                if bounds is not None:
                    for v in vals:
                        if not bounds[0] <= v <= bounds[1]:
                            rec.fail("hard-core/%s/%s" % (name, label), "variant %s wrote %s = %r outside the hard "
                                     "bounds [%r, %r] (replica seed %d)" % (name, label, v, bounds[0], bounds[1], rseed),
                                     {"variant": name, "seed": rseed})
                data[label].append(vals)
                nt = len(vals) >= 100 * k
                rec.case("%s/%s" % (name, label), (name, label, rseed), nt,
                         {"variant": name, "observable": label, "replica_seed": rseed, "samples": len(vals),
                          "first": vals[:3]})
        finally:
            if workdir:
                shutil.rmtree(workdir, ignore_errors=True)
    for label, pattern, extractor, ref_factory, bounds in observables:
        reference = ref_factory()
        worst, details, edges = stats.z_scores(data[label], reference)
        rec.maximum("max_abs_z", worst, {"variant": name, "observable": label})
        rec.extra["z/%s/%s" % (name, label)] = {"value": round(worst, 3), "where": {
            "replicas": R, "samples_per_replica": len(data[label][0]) if data[label] else 0,
            "bin_frequencies": [round(d["mean_frequency"], 4) for d in details]}}
        if worst > THRESHOLD:
            rec.fail("distribution/%s/%s" % (name, label), "variant %s: observable %s deviates from the reference "
                     "distribution: max |z| = %.1f over 8 equiprobable bins (mean bin frequencies %r, expected 0.125 "
                     "each; %d replicas x %d values)" % (name, label, worst,
                                                         [round(d["mean_frequency"], 4) for d in details], R,
                                                         len(data[label][0])),
                     {"variant": name, "observable": label, "seed": seed, "tier": tier, "shard": shard})


def replay(rec, args):
    run_variant(rec, args.get("seed", 1), 0, args.get("tier", "quick"), args.get("shard", 0))


CHECKS = [Check("replicas", custom=run_variant, quick=1, thorough=1, quick_shards=11, thorough_shards=13,
                replay=replay)]
