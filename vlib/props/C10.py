"""C10 - cell-based and file-based factor decompositions cover each partner exactly once.

(a) real cells + SingleActiveCellOccupancy + the four real cell taggers on generated configurations: the three
    families (non-nearby cells, nearby cells, surplus) partition the relevant units other than the active one.
(b) generated well-formed factor files through the real FactorTypeMaps / FactorTypeMapInStateTagger against a
    model written from the class docstring."""
import math
import os
import tempfile
from collections import Counter

from hypothesis import strategies as st

from .. import gen, stubs
from ..runner import Check

PROPERTY = "C10"
RULE = ("(a) Hypothesis draws dimension 2-3, cubic/cuboid box, grid 3..7 cells per axis, layers 0..2 (2*layers+1 <= "
        "cells, strictly more on one axis), occupant cap in {1,2,3,unbounded}, a 1- or 2-level tree with cell level 1 or 2, "
        "2..40 units with positions uniform / clustered into one cell / on cell faces, an optional charge filter with "
        "zero charges, and the active unit (any point mass or a whole object, incl. units stored as surplus). Oracle: "
        "multiset(occupants of the translated non-nearby relative cells) + multiset(ExcludedCellsTagger targets) + "
        "multiset(SurplusCellsTagger targets) == relevant units minus the active one; the same with "
        "CellBoundingPotentialTagger in place of the veto family. (b) grammar-generated factor files (local and "
        "non-local index sets, both orientations of asymmetric sets, comments incl. commented-out factor lines, duplicates), 1..4 point masses per "
        "object, 2..5 objects, active leaf or whole object: tagger output == docstring model as sets of tuples. "
        "Non-trivial: (a) >=1 surplus unit and >=1 unit in a nearby cell, (b) a non-local factor with >2 indices; "
        "distinct by all drawn arguments.")
ASSUMPTIONS = ["event handlers behind the taggers are real classes fed a harness Estimator (interfaces only)",
               "well-formed factor files: one locality per factor name, asymmetric inter-object index sets listed in "
               "both orientations (the documented convention of the shipped files)"]


# --------------------------------------------------------------------------------------------------- (a) cells

@st.composite
def cell_case(draw):
    dim = draw(st.sampled_from([2, 3]))
    layers = draw(st.sampled_from([0, 1, 1, 2]))
    lo = 2 * layers + 1
    per = [draw(st.integers(max(lo, 1), max(lo, 1) + 3)) for _ in range(dim)]
    if max(per) <= lo:
        per[draw(st.integers(0, dim - 1))] = lo + 1
    while math.prod(per) > 220:
        i = per.index(max(per))
        per[i] -= 1
    if max(per) <= lo:
        per[0] = lo + 1
    cubic = draw(st.booleans())
    lengths = [draw(st.sampled_from([1.0, 2.0, 0.7]))] * dim if cubic else [draw(st.sampled_from([1.0, 2.0, 0.7, 3.3]))
                                                                            for _ in range(dim)]
    levels = draw(st.sampled_from([1, 2]))
    kids = draw(st.integers(1, 3)) if levels == 2 else 1
    cell_level = draw(st.sampled_from([1, levels]))
    roots = draw(st.integers(2, 14 if levels == 2 else 40))
    cap = draw(st.sampled_from([1, 1, 2, 3, 0]))
    use_charge = cell_level == levels and draw(st.booleans())
    placement = draw(st.sampled_from(["uniform", "clustered", "faces"]))
    n_units = roots * (kids if levels == 2 else 1)
    coords = []
    for _ in range(n_units):
        p = []
        for L, n in zip(lengths, per):
            side = L / n
            if placement == "uniform":
                x = draw(gen.floats(0.0, math.nextafter(L, 0.0)))
            elif placement == "clustered":
                x = side * (1 + draw(gen.floats(0.05, 0.95)))
            else:
                k = draw(st.integers(0, n - 1))
                x = gen.step(k * side, draw(st.integers(0, 2)))
            p.append(min(max(x, 0.0), math.nextafter(L, 0.0)))
        coords.append(p)
    charges = [draw(st.sampled_from([0.0, 1.0, -1.0, 2.0])) if use_charge else 1.0 for _ in range(n_units)]
    active = draw(st.integers(0, n_units - 1))
    more_actives = draw(st.lists(st.integers(0, n_units - 1), max_size=3))
    whole_object = levels == 2 and draw(st.booleans())
    return {"dim": dim, "layers": layers, "per_side": per, "lengths": lengths, "levels": levels, "kids": kids,
            "cell_level": cell_level, "roots": roots, "cap": cap, "use_charge": use_charge, "placement": placement,
            "coords": coords, "charges": charges, "active": active, "more_actives": more_actives,
            "whole_object": whole_object}


def build_state(c):
    import jellyfysh.setting as setting
    from jellyfysh.setting import hypercubic_setting, hypercuboid_setting
    from jellyfysh.base.node import Node
    from jellyfysh.base.particle import Particle
    from jellyfysh.base.time import Time
    from jellyfysh.state_handler.tree_state_handler import TreeStateHandler
    from jellyfysh.state_handler.physical_state.tree_physical_state import TreePhysicalState
    from jellyfysh.state_handler.lifting_state.tree_lifting_state import TreeLiftingState
    from ..engine import reset_globals
    reset_globals()
    lengths, dim = c["lengths"], c["dim"]
    if all(L == lengths[0] for L in lengths):
        hypercubic_setting.HypercubicSetting(beta=1.0, dimension=dim, system_length=lengths[0])
    else:
        hypercuboid_setting.HypercuboidSetting(beta=1.0, dimension=dim, system_lengths=list(lengths))
    setting.set_number_of_root_nodes(c["roots"])
    setting.set_number_of_nodes_per_root_node(c["kids"] if c["levels"] == 2 else 1)
    setting.set_number_of_node_levels(c["levels"])
    nodes = []
    k = 0
    leaf_ids = []
    for r in range(c["roots"]):
        if c["levels"] == 1:
            nodes.append(Node(Particle(list(c["coords"][k]), {"q": c["charges"][k]})))
            leaf_ids.append((r,))
            k += 1
        else:
            kids = []
            for ch in range(c["kids"]):
                kids.append(Node(Particle(list(c["coords"][k]), {"q": c["charges"][k]})))
                leaf_ids.append((r, ch))
                k += 1
            # root position: barycentre (nearest images around the first child)
            ref = kids[0].value.position
            pos = []
            for d in range(dim):
                acc = 0.0
                for kid in kids:
                    s = kid.value.position[d] - ref[d]
                    s -= lengths[d] * round(s / lengths[d])
                    acc += s / len(kids)
                pos.append((ref[d] + acc) % lengths[d])
                if pos[-1] >= lengths[d]:
                    pos[-1] = 0.0
            root = Node(Particle(pos))
            for kid in kids:
                root.add_child(kid)
            nodes.append(root)
    sh = TreeStateHandler(TreePhysicalState(), TreeLiftingState())
    sh.initialize(nodes)
    return sh, leaf_ids


def activate(sh, c, leaf_ids):
    """Give the drawn unit (or its whole object) a velocity through a real extract/insert."""
    from jellyfysh.base.time import Time
    ident = leaf_ids[c["active"]]
    target = ident[:1] if (c["whole_object"] and len(ident) == 2) else ident
    branch = sh.extract_from_global_state(target)
    v = [1.0] + [0.0] * (c["dim"] - 1)

    def leaves(n):
        return [n] if not n.children else [x for ch in n.children for x in leaves(ch)]
    node = branch
    moving = leaves(branch) if target == ident[:1] else None
    if moving is None:
        # descend to the leaf
        node = branch
        while node.value.identifier != ident:
            node = node.children[0]
        moving = [node]
    total_w = 0.0
    for leaf in moving:
        leaf.value.velocity = list(v)
        leaf.value.time_stamp = Time(0.0, 0.0)
        total_w += leaf.weight if leaf.parent is not None else 1.0
    if branch.children:
        branch.value.velocity = [x * total_w for x in v]
        branch.value.time_stamp = Time(0.0, 0.0)
    sh.insert_into_global_state([branch])
    return target


def deactivate(sh, target):
    """Stop the currently moving unit(s) through a real extract/insert."""
    branch = sh.extract_from_global_state(target)

    def walk(n):
        n.value.velocity = None
        n.value.time_stamp = None
        for ch in n.children:
            walk(ch)
    walk(branch)
    sh.insert_into_global_state([branch])


def body_cells(rec, **c):
    from jellyfysh.activator.internal_state.cell_occupancy.cells.cuboid_periodic_cells import CuboidPeriodicCells
    from jellyfysh.activator.internal_state.single_active_cell_occupancy import SingleActiveCellOccupancy
    from jellyfysh.activator.tagger.cell_veto_tagger import CellVetoTagger
    from jellyfysh.activator.tagger.cell_bounding_potential_tagger import CellBoundingPotentialTagger
    from jellyfysh.activator.tagger.excluded_cells_tagger import ExcludedCellsTagger
    from jellyfysh.activator.tagger.surplus_cells_tagger import SurplusCellsTagger
    from jellyfysh.event_handler.leaf_unit_cell_veto_event_handler import LeafUnitCellVetoEventHandler
    from jellyfysh.event_handler.two_leaf_unit_cell_bounding_potential_event_handler import \
        TwoLeafUnitCellBoundingPotentialEventHandler
    from jellyfysh.potential.cell_bounding_potential import CellBoundingPotential
    from jellyfysh.potential.inverse_power_potential import InversePowerPotential
    import contextlib
    import io
    sh, leaf_ids = build_state(c)
    cells = CuboidPeriodicCells(cells_per_side=list(c["per_side"]), neighbor_layers=c["layers"])
    occ = SingleActiveCellOccupancy(cells=cells, cell_level=c["cell_level"], maximum_number_occupants=c["cap"],
                                    charge="q" if c["use_charge"] else None)
    occ.initialize(sh.extract_global_state())
    if c["whole_object"] and c["levels"] == 2 and c["cell_level"] == 2 and c["kids"] > 1:
        # a whole object moves but cells hold point masses: several active units on the cell level -> outside the
        # single-active-unit contract of this occupancy class (its update asserts exactly one)
        rec.exclude("whole object active with point-mass cells")
        return
    target = activate(sh, c, leaf_ids)
    occ.update(sh.extract_active_global_state())
    Estimator = stubs.make_estimator_class()
    Null = stubs.make_event_handler_class()
    pot = InversePowerPotential(power=1.0, prefactor=1.0)
    est = Estimator(pot, lambda lo, hi, d: (1.0, -1.0))
    label = "single_active_cell_occupancy"
    with contextlib.redirect_stdout(io.StringIO()):
        veto_h = LeafUnitCellVetoEventHandler(estimator=est)
        bound_h = TwoLeafUnitCellBoundingPotentialEventHandler(
            potential=pot, bounding_potential=CellBoundingPotential(estimator=Estimator(pot, lambda lo, hi, d: (1.0, -1.0))))
        taggers = {
            "veto": CellVetoTagger(create=[], trash=[], event_handler=veto_h, internal_state_label=label, tag="veto"),
            "bounding": CellBoundingPotentialTagger(create=[], trash=[], event_handler=bound_h, number_event_handlers=1,
                                                    internal_state_label=label, tag="bounding"),
            "nearby": ExcludedCellsTagger(create=[], trash=[], event_handler=Null(), number_event_handlers=1,
                                          internal_state_label=label, tag="nearby"),
            "surplus": SurplusCellsTagger(create=[], trash=[], event_handler=Null(), number_event_handlers=1,
                                          internal_state_label=label, tag="surplus"),
        }
        for t in taggers.values():
            t.initialize_with_internal_states([occ])
            t.initialize()
    sequence = [c["active"]] + list(c.get("more_actives") or [])
    for step, active_index in enumerate(sequence):
        if step > 0:
            deactivate(sh, target)
            cstep = dict(c, active=active_index)
            target = activate(sh, cstep, leaf_ids)
            occ.update(sh.extract_active_global_state())
        check_partition(rec, c, sh, occ, cells, taggers, leaf_ids, target, step)


def check_partition(rec, c, sh, occ, cells, taggers, leaf_ids, target, step):
    active_state = sh.extract_active_global_state()
    # relevant units on the cell level
    relevant = []
    k = 0
    seen_roots = set()
    for i, ident in enumerate(leaf_ids):
        if c["cell_level"] == len(ident):
            if not c["use_charge"] or c["charges"][i] != 0.0:
                relevant.append(ident)
        elif ident[:1] not in seen_roots:
            seen_roots.add(ident[:1])
            relevant.append(ident[:1])
    active_cells = list(occ.yield_active_cells())
    active_on_level = target if len(target) == c["cell_level"] else target[:c["cell_level"]]
    if len(target) < c["cell_level"]:
        # a whole object moves but cells hold point masses: several active units on the cell level -> outside the
        # single-active-unit contract of this occupancy class (its update asserts exactly one)
        rec.exclude("whole object active with point-mass cells")
        return
    yields = {name: [tuple(x) for x in t.yield_identifiers_send_event_time(active_state)] for name, t in
              taggers.items()}
    if active_on_level not in relevant:
        for name, ys in yields.items():
            if ys:
                rec.fail("cells/irrelevant-active-yields", "active unit %r is filtered out but tagger %s yields %r"
                         % (active_on_level, name, ys[:3]), c)
        rec.case("active-unit-not-relevant", tuple(sorted((k, repr(v)) for k, v in c.items())) + (step,), False, None)
        return
    if len(active_cells) != 1 or active_cells[0][1] != active_on_level:
        rec.fail("cells/active-cell", "active cells %r, expected unit %r" % (
            [(a.identifier, b) for a, b in active_cells], active_on_level), c)
    active_cell = active_cells[0][0]
    if yields["veto"] != [(active_on_level,)]:
        rec.fail("cells/veto-in-state", "cell-veto tagger yields %r, expected [(%r,)]" % (yields["veto"],
                                                                                        active_on_level), c)
    veto_targets = []
    zero = cells.zero_cell
    for cell in cells.yield_cells():
        if cell not in cells.nearby_cells(zero):
            rel = cells.relative_cell(cell, zero)
            tgt = cells.translate(active_cell, rel)
            veto_targets.extend(occ[tgt])
    for name in ("bounding", "nearby", "surplus"):
        for tup in yields[name]:
            if tup[0] != active_on_level:
                rec.fail("cells/first-is-active", "tagger %s yields %r whose first entry is not the active unit"
                         % (name, tup), c)
    bounding_targets = [x for tup in yields["bounding"] for x in tup[1:]]
    nearby_targets = [x for tup in yields["nearby"] for x in tup[1:]]
    surplus_targets = [x for tup in yields["surplus"] for x in tup[1:]]
    want = Counter(relevant)
    want[active_on_level] -= 1
    want = +want
    for fam, targets in (("veto", veto_targets), ("bounding", bounding_targets)):
        got = Counter(targets) + Counter(nearby_targets) + Counter(surplus_targets)
        if got != want:
            missing = list((want - got).elements())[:4]
            twice = list((got - want).elements())[:4]
            rec.fail("cells/not-a-partition/%s" % fam, "%s family + nearby + surplus: missed %r, treated twice or "
                     "wrongly %r (grid %r, layers %d, cap %d, active %r in cell %r)" % (
                         fam, missing, twice, c["per_side"], c["layers"], c["cap"], active_on_level,
                         active_cell.identifier), c)
    nt = len(surplus_targets) >= 1 and len(nearby_targets) >= 1
    rec.case("%s/%s%s%s%s" % (c["placement"], "surplus" if surplus_targets else "no-surplus",
                              "+nearby" if nearby_targets else "", "+filter" if c["use_charge"] else "",
                              "/after-switch" if step else ""),
             tuple(sorted((k, repr(v)) for k, v in c.items())) + (step,), nt,
             {"grid": c["per_side"], "layers": c["layers"], "cap": c["cap"], "units": len(relevant),
              "active": active_on_level, "veto": len(veto_targets), "nearby": len(nearby_targets),
              "surplus": len(surplus_targets)})


# --------------------------------------------------------------------------------------------------- (b) factor files

NAMES = ["Coulomb", "Harmonic", "Bending", "LennardJones", "Repulsive", "A", "Xy", "FooBar"]


@st.composite
def factor_case(draw):
    # molecule sizes up to 8: the second object's indices then have two digits (10..15)
    n = draw(st.one_of(st.integers(1, 4), st.integers(1, 4), st.integers(5, 8)))
    roots = draw(st.integers(2, 5))
    n_factors = draw(st.integers(1, 4))
    names = draw(st.lists(st.sampled_from(NAMES), min_size=n_factors, max_size=n_factors, unique=True))
    lines = []
    for name in names:
        local = n >= 2 and draw(st.booleans())
        for _ in range(draw(st.integers(1, 4))):
            if local:
                size = draw(st.integers(1, n))
                idx = draw(st.permutations(list(range(n))))[:size]
                lines.append((list(idx), name))
            else:
                a = draw(st.lists(st.integers(0, n - 1), min_size=1, max_size=n, unique=True))
                b = draw(st.lists(st.integers(n, 2 * n - 1), min_size=1, max_size=n, unique=True))
                idx = draw(st.permutations(a + b))
                lines.append((list(idx), name))
                mirror = [j + n if j < n else j - n for j in idx]
                if sorted(mirror) != sorted(idx) or draw(st.booleans()):
                    lines.append((mirror, name))
        if draw(st.integers(0, 4)) == 0 and lines:
            lines.append(lines[-1])  # duplicate line
    order = draw(st.permutations(list(range(len(lines)))))
    lines = [lines[i] for i in order]
    comments = draw(st.lists(st.integers(0, len(lines)), max_size=3))
    active_root = draw(st.integers(0, roots - 1))
    active_leaf = draw(st.integers(0, n - 1))
    whole = n >= 2 and draw(st.booleans())
    probe_missing = draw(st.booleans())
    return {"n": n, "roots": roots, "lines": [[l[0], l[1]] for l in lines], "comments": comments,
            "active_root": active_root, "active_leaf": active_leaf, "whole": whole, "probe_missing": probe_missing}


def factor_model(lines, name, n, roots, active):
    """Docstring semantics: index sets of factor `name` containing the active leaf (as an index of the first object),
    once if the set is local, once per other object otherwise."""
    r, a = active
    out = set()
    for idx, nm in lines:
        if nm != name or a not in idx:
            continue
        if all(j < n for j in idx):
            out.add(tuple((r, j) for j in idx) if n > 1 else tuple((r,) for j in idx))
        else:
            for o in range(roots):
                if o == r:
                    continue
                if n > 1:
                    out.add(tuple((r, j) if j < n else (o, j - n) for j in idx))
                else:
                    out.add(((r,), (o,)))
    return out


def body_factors(rec, **c):
    import jellyfysh.setting as setting
    from jellyfysh.setting import hypercubic_setting
    from jellyfysh.activator.tagger.factor_type_maps import FactorTypeMaps
    from jellyfysh.activator.tagger.factor_type_map_in_state_tagger import FactorTypeMapInStateTagger
    from ..engine import reset_globals
    n, roots = c["n"], c["roots"]
    cc = {"dim": 3, "lengths": [1.0, 1.0, 1.0], "roots": roots, "kids": n, "levels": 2 if n > 1 else 1,
          "coords": [[0.1 + 0.8 * ((i * 37) % 101) / 101.0, 0.5, 0.5] for i in range(roots * n)],
          "charges": [1.0] * (roots * n), "active": c["active_root"] * n + c["active_leaf"],
          "whole_object": c["whole"]}
    sh, leaf_ids = build_state(cc)
    activate(sh, cc, leaf_ids)
    lines = [(list(l[0]), l[1]) for l in c["lines"]]
    if n == 1:
        # without composite objects every index set must be the pair [0, 1]
        lines = [([0, 1], nm) for _, nm in lines]
    text = []
    for i, (idx, nm) in enumerate(lines):
        if i in c["comments"]:
            # comment lines, among them factor lines that were disabled by a leading '#'
            text.append(["# comment %d" % i, "# [0, %d], %s" % (c["n"], c["lines"][0][1]),
                         "#[%d, %d], %s" % (c["n"] - 1, 2 * c["n"] - 1, c["lines"][-1][1]),
                         "# [0], %s" % c["lines"][0][1]][i % 4])
        text.append("[%s], %s" % (", ".join(str(j) for j in idx), nm))
    fd, path = tempfile.mkstemp(prefix="jffactors_", suffix=".txt")
    try:
        with os.fdopen(fd, "w") as f:
            f.write("\n".join(text) + "\n")
        maps = FactorTypeMaps(path)
        Null = stubs.make_event_handler_class()
        active_state = sh.extract_active_global_state()
        active_leaves = [(c["active_root"], j) for j in range(n)] if (c["whole"] and n > 1) else \
            [(c["active_root"], c["active_leaf"])]
        if n == 1:
            active_leaves = [(c["active_root"], 0)]
        names = sorted({nm for _, nm in lines})
        nt = False
        for nm in names:
            tagger = FactorTypeMapInStateTagger(create=[], trash=[], event_handler=Null(), number_event_handlers=1,
                                                factor_type_maps=maps, tag="t_" + nm.lower(),
                                                factor_type_maps_label=_snake(nm))
            tagger.initialize()
            got = list(tagger.yield_identifiers_send_event_time(active_state))
            got_set = set(tuple(tuple(x) for x in g) for g in got)
            if len(got_set) != len(got):
                rec.fail("factors/duplicate-in-state", "tagger for %s yields a factor twice: %r" % (nm, got), c)
            want = set()
            for (r, a) in active_leaves:
                want |= factor_model(lines, nm, n, roots, (r, a))
            if got_set != want:
                rec.fail("factors/mismatch", "factor %s, active %r: tagger yields %r, the file's index sets give %r "
                         "(n=%d, objects=%d)" % (nm, active_leaves, sorted(got_set)[:6], sorted(want)[:6], n, roots), c)
            if any(len(idx) > 2 and any(j >= n for j in idx) for idx, name in lines if name == nm):
                nt = True
        rec.case("n%d/%s" % (n, "whole-object" if (c["whole"] and n > 1) else "leaf"),
                 (n, roots, tuple((tuple(a), b) for a, b in lines), c["active_root"], c["active_leaf"], c["whole"]), nt,
                 {"file": text[:8], "n": n, "objects": roots, "active": active_leaves})
    finally:
        os.remove(path)


def _snake(name):
    out = ""
    for i, ch in enumerate(name):
        if ch.isupper() and i > 0:
            out += "_"
        out += ch.lower()
    return out


def _unwrap(f):
    return lambda rec, c=None, **kw: f(rec, **(c if c is not None else kw))


CHECKS = [
    Check("cell_partition", _unwrap(body_cells), lambda: {"c": cell_case()}, quick=500, thorough=4000, quick_shards=10),
    Check("factor_files", _unwrap(body_factors), lambda: {"c": factor_case()}, quick=2000, thorough=15000,
          quick_shards=6),
]
