"""C17 - samples and end of run occur at nominal times on a fully time-sliced state (history monitor)."""
from ..configs import config_case
from ..runner import Check
from ._history import run_history

PROPERTY = "C17"
RULE = ("Generator of C07 with a drawn sampling interval (fixed values 0.3/0.1/0.25/0.7/1.0 and uniform [0.01,2]), "
        "first_event_time_zero on/off, a drawn end-of-run time in [2,12] and an event budget large enough to reach it. "
        "Oracle: the k-th write of the sampling handler happens right after a commit whose time t_k satisfies "
        "|t_k - k*interval| <= (k+1)*2^-52*(1+interval); every moving unit in the written state carries time stamp "
        "t_k exactly; the run ends with the end-of-run event at Time.from_float(end) as last commit; the number of "
        "samples is the number of nominal times before the end (a nominal time equal to the end may go either way). "
        "Non-trivial: a run that reached its end with >=3 samples and >=1 interaction event; distinct by (config, "
        "edits, seed, budget).")
ASSUMPTIONS = ["same instrumentation as C07; sampling parameters are read from the configuration text, not from the "
               "handler"]


def body(rec, c):
    run_history(rec, PROPERTY, c, lambda m: getattr(m, "reason", None) == "end_of_run" and m.stats["samples"] >= 3
                and m.stats["interaction_commits"] >= 1)


CHECKS = [Check("history", body, lambda: {"c": config_case(sampling_focus=True, min_end=(2.0, 12.0),
                                                           max_events=(60000, 60000))},
                quick=10, thorough=60, quick_shards=16, thorough_shards=16, shrink_quick=False)]
