"""C17 - samples and end of run occur at nominal times on a fully time-sliced state (history monitor)."""
import math
from fractions import Fraction

from hypothesis import strategies as st

from .. import gen
from ..configs import config_case
from ..runner import Check
from ._history import run_history

PROPERTY = "C17"
RULE = ("Generator of C07 with a drawn sampling interval (fixed values 0.3/0.1/0.25/0.7/1.0 and uniform [0.01,2]), "
        "first_event_time_zero on/off, a drawn end-of-run time in [2,12] and an event budget large enough to reach it. "
        "Oracle: the k-th write of the sampling handler happens right after a commit whose time t_k satisfies "
        "|t_k - k*interval| <= (k+1)*2^-52*(1+interval); every moving unit in the written state carries time stamp "
        "t_k exactly; the run ends with the end-of-run event at Time.from_float(end) as last commit; the number of "
        "samples is the number of nominal times before the end (a nominal time equal to the end may go either way). "
        "Non-trivial: a run that reached its end with >=3 samples and >=1 interaction event; distinct by (config, "
        "edits, seed, budget). One history in four has a second sampling tagger copied from the shipped one (own interval, "
        "own output handler: each handler keeps its own times and its own output); one in three (more for mode-switching "
        "configurations) connects the end-of-run handler to an output handler through its documented option, the state "
        "written there must be fully time-sliced as well. One history in six draws an interval in [0.0015, 0.004] (500-8000 samples per run). "
        "Sub-check periodic_handlers: the sampling and dumping handlers alone are asked for 3-300 or 1000-4000 "
        "consecutive candidate times (interval from fixed values and log-uniform [1e-4,1e3], first sample at zero or "
        "not); oracle k*interval in Fractions with (k+1) roundings of size ulp(1+interval) allowed, strictly "
        "increasing, normalised; non-trivial: >=1000 steps.")
ASSUMPTIONS = ["same instrumentation as C07; sampling parameters are read from the configuration text, not from the "
               "handler"]


def body(rec, c):
    run_history(rec, PROPERTY, c, lambda m: getattr(m, "reason", None) == "end_of_run" and m.stats["samples"] >= 3
                and m.stats["interaction_commits"] >= 1)


@st.composite
def periodic_case(draw):
    interval = draw(st.one_of(st.sampled_from([0.3, 0.1, 0.25, 0.7, 1.0, 0.0025, 3.0, 1e-3, 1.0 / 3.0, 2.0 ** -7]),
                              gen.log_uniform(1e-4, 1e3)))
    return {"kind": draw(st.sampled_from(["sampling", "sampling", "dumping"])), "interval": interval,
            "first_zero": draw(st.booleans()),
            "steps": draw(st.one_of(st.integers(3, 300), st.integers(1000, 4000)))}


def body_periodic(rec, kind, interval, first_zero, steps):
    """The periodic handlers alone, asked for their candidate time `steps` times in a row (a long run in miniature: the
    mediator asks once per sample).  Oracle: exact k*interval by Fractions, at most one rounding per step."""
    if kind == "sampling":
        from jellyfysh.event_handler.fixed_interval_sampling_event_handler import FixedIntervalSamplingEventHandler
        handler = FixedIntervalSamplingEventHandler(sampling_interval=interval, output_handler="Out",
                                                    first_event_time_zero=first_zero)
        offset = 1 if first_zero else 0
    else:
        from jellyfysh.event_handler.fixed_interval_dumping_event_handler import FixedIntervalDumpingEventHandler
        handler = FixedIntervalDumpingEventHandler(dumping_interval=interval, output_handler="Out")
        offset = 0
    args = {"kind": kind, "interval": interval, "first_zero": first_zero, "steps": steps}
    exact_interval = Fraction(interval)
    step_rounding = Fraction(math.ulp(1.0 + interval))        # one rounding of remainder + interval
    previous = None
    for call in range(1, steps + 1):
        t = handler.send_event_time()
        k = call - offset
        got = Fraction(t.quotient) + Fraction(t.remainder)
        if not (t.quotient == math.floor(t.quotient) and 0.0 <= t.remainder < 1.0):
            rec.fail("periodic/not-normalised", "%s handler, interval %r: candidate time number %d is %r"
                     % (kind, interval, call, t), args)
            break
        if abs(got - k * exact_interval) > (call + 1) * step_rounding:
            rec.fail("periodic/time", "%s handler, interval %r, first_event_time_zero=%r: candidate time number %d is "
                     "%r = %.17g, nominal %d * interval = %.17g" % (kind, interval, first_zero, call, t, float(got), k,
                                                                   float(k * exact_interval)), args)
            break
        if previous is not None and not t > previous:
            rec.fail("periodic/not-increasing", "%s handler, interval %r: candidate time number %d is %r after %r"
                     % (kind, interval, call, t, previous), args)
            break
        previous = t
    rec.case("%s/%s" % (kind, "long" if steps >= 1000 else "short"), (kind, interval, first_zero, steps),
             steps >= 1000, args)


CHECKS = [Check("periodic_handlers", lambda rec, c=None, **kw: body_periodic(rec, **(c if c is not None else kw)),
                lambda: {"c": periodic_case()}, quick=150, thorough=1500, quick_shards=4, thorough_shards=16),
          Check("history", body, lambda: {"c": config_case(sampling_focus=True, min_end=(2.0, 12.0), g7_one_in=5,
                                                           max_events=(30000, 30000))},
                quick=10, thorough=60, quick_shards=16, thorough_shards=16, shrink_quick=False),
          ]

from . import C17_outstate  # noqa: E402  (handler part: out-states of the sampling / end-of-run handlers, drawn branches)
CHECKS = CHECKS + C17_outstate.CHECKS
RULE += (" Sub-check out_state_time_sliced: the sampling and end-of-run handlers are handed one to three directly drawn "
         "active branches (same or different composite objects, point masses or whole objects moving, own time "
         "stamps); every unit with a velocity must come back with the event time and the position of its own "
         "trajectory.")
