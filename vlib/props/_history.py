"""Shared body of the history properties: generate a configuration, run it under the monitor, report the verdicts
of ONE property (the others are evaluated but ignored here: each property has its own command)."""
from .. import configs, engine, monitor
from ..build import HarnessError
from ..runner import Violation, exception_signature

# exceptions escaping the run are attributed to the property whose mechanism raised them
EXCEPTION_OWNER = [
    ("TagActivatorError", "C09"),
    ("SchedulerError", "C07"),
    ("single_active_cell_occupancy", "C11"),
    ("cell_occupancy", "C11"),
    ("cells/", "C16"),
]


def owner_of(exc_signature):
    for needle, prop in EXCEPTION_OWNER:
        if needle in exc_signature:
            return prop
    return "C07"   # "events only hand velocity over": a run that cannot proceed breaks the history itself


def run_history(rec, prop, case, nontrivial, label=None, sample_extra=None):
    text = configs.materialise(case)
    mon = monitor.HistoryMonitor()
    args = dict(case)
    import os as _os, time as _time
    _t0 = _time.time()
    try:
        try:
            ctx, reason = engine.run(text, case["seed"], case["events"], mon, cluster=case.get("cluster"))
        finally:
            if _os.environ.get("VERIF_SLOW_CASES") and _time.time() - _t0 > float(_os.environ["VERIF_SLOW_CASES"]):
                import sys as _sys
                _sys.stderr.write("SLOW %.1fs %s commits=%d edits=%r second=%r\n" % (
                    _time.time() - _t0, case["base"], mon.stats["commits"], case["edits"], case.get("second_sampling")))
    except (HarnessError, Violation):
        raise
    except Exception as exc:
        sig = exception_signature(exc)
        if sig is None:
            raise
        # verdicts the monitor reached before the run died come first: they are observations of this property
        for v in mon.by_property(prop):
            rec.fail("%s/%s" % (prop, v["signature"]), "%s [config %s, seed %d, commit %s; the run later aborted with %s]"
                     % (v["message"], case["base"], case["seed"], v["event"], type(exc).__name__),
                     dict(args, first_violating_commit=v["event"]))
        owner = owner_of(sig)
        msg = "run of %s aborted after %d commits by %s: %s" % (case["base"], mon.stats["commits"],
                                                               type(exc).__name__, exc)
        if owner == prop:
            rec.fail(sig, msg, args)
        else:
            rec.exclude("run aborted by an exception attributed to %s (%s)" % (owner, sig))
            rec.notes.append("excluded: %s [%s, edits %r, seed %d, second sampling %r]" % (
                msg[:300], case["base"], case["edits"], case["seed"], case.get("second_sampling")))
        return None
    for v in mon.by_property(prop):
        rec.fail("%s/%s" % (prop, v["signature"]), "%s [config %s, seed %d, commit %s]" % (
            v["message"], case["base"], case["seed"], v["event"]), dict(args, first_violating_commit=v["event"]))
    nt = bool(nontrivial(mon))
    lab = label(mon, case) if label else case["base"].split("/")[-1].replace(".ini", "")
    sample = {"base": case["base"], "edits": case["edits"], "seed": case["seed"], "cluster": case.get("cluster"),
              "commits": mon.stats["commits"],
              "end": getattr(mon, "reason", None), "handlers": dict(mon.committed_classes),
              "stats": {k: v for k, v in mon.stats.items() if not k.startswith("commit/")}}
    if sample_extra:
        sample.update(sample_extra(mon))
    rec.case(lab + ("" if not case["edits"] else "+edits") + ("+clustered" if case.get("cluster") else ""),
             (case["base"], tuple(map(tuple, case["edits"])), case["seed"], case["events"], case.get("cluster")), nt,
             sample)
    for k, v in mon.stats.items():
        rec.extra.setdefault("sum_" + k, {"value": 0, "where": None})
        rec.extra["sum_" + k]["value"] += v
    return mon
