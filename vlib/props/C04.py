"""C04 - thinning is sound: the bounding rate dominates and acceptance is the exact ratio.

(a) domination: generated/enumerated separations, q_true = max(0, c*dU_true) vs q_bound = c*dU_bound.
(b) acceptance and (c) in-run warnings are in C04_handlers (imported below when available)."""
import math

from hypothesis.control import currently_in_test_context
from hypothesis import strategies as st, target

from .. import gen
from ..runner import Check, run_given
from .C02 import init_cubic

PROPERTY = "C04"
RULE = ("(a) separations in the minimum-image cube from three sources with one oracle: a deterministic lattice scan "
        "(quick 72^3, thorough 240^3 points x 3 directions x 2 charge signs), Hypothesis draws steered by "
        "target(q_true/q_bound) including a dedicated class s_d = +-10^-k L (k=1..14) with the other components on "
        "faces/edges/corners, and coordinate-descent refinement from the best points. Oracle: wherever q_true > 0, "
        "q_bound > 0 and q_true <= q_bound; the ratio is covariant under box rescaling, axis permutation and charge "
        "magnitude (1e-9). (b) handlers under scripted draws: break point of the hand-over in the confirmation draw "
        "equals max(0,q_true)/q_bound; no hand-over above it. (c) bounding_potential_warning firings in runs. "
        "Non-trivial: (a) ratio > 0.9, (b) threshold strictly inside (0,1); distinct by the drawn arguments.")
ASSUMPTIONS = ["the true rate is the derivative of MergedImageCoulombPotential at its default Ewald parameters (C03 "
               "ties it to the converged lattice sum), the bound is InversePowerCoulombBoundingPotential with its "
               "default prefactor 1.5837", "separations are minimum-image vectors with |s| >= 1e-9 L"]


def potentials(L):
    init_cubic(L)
    from jellyfysh.potential.inverse_power_coulomb_bounding_potential import InversePowerCoulombBoundingPotential
    from jellyfysh.potential.merged_image_coulomb_potential import MergedImageCoulombPotential
    return MergedImageCoulombPotential(), InversePowerCoulombBoundingPotential()


_pots = {}


def get_pots(L):
    if _pots.get("L") != L:
        _pots["L"] = L
        _pots["p"] = potentials(L)
    return _pots["p"]


def rates(L, s, d, c1c2, speed=1.0):
    true_p, bound_p = get_pots(L)
    v = [0.0, 0.0, 0.0]
    v[d] = speed
    qt = true_p.derivative(v, list(s), 1.0, c1c2)
    qb = bound_p.derivative(v, list(s), 1.0, c1c2)
    return qt, qb


def verdict(rec, L, s, d, c1c2, source, args):
    qt, qb = rates(L, s, d, c1c2)
    # the lattice sum carries an absolute rounding/truncation error of ~3e-13/L^2 (measured against the independent
    # Ewald oracle in C03); a "positive" true rate below that level is noise at a point where the exact value is <= 0
    noise = 1e-11 * abs(c1c2) / (L * L)
    if qt > noise:
        if not qb > 0.0:
            rec.fail("domination/bound-not-positive", "true rate %r > 0 but bounding rate %r (L=%r, s=%r, direction %d, "
                     "c1c2=%r)" % (qt, qb, L, s, d, c1c2), args)
            return None
        ratio = qt / qb
        if qt > qb + noise:
            rec.fail("domination/exceeded", "true rate %r exceeds bounding rate %r: ratio %.9f (L=%r, s=%r, direction %d,"
                     " c1c2=%r, found by %s)" % (qt, qb, ratio, L, s, d, c1c2, source), args)
        return ratio
    return 0.0


# ------------------------------------------------------------------------------------------ lattice scan + refinement

def scan(rec, seed, n, tier, shard):
    """Deterministic lattice scan of the cube for L = 1; shards split the x index.  n = points per side."""
    L = 1.0
    shards = 8 if tier == "quick" else 16
    best = []
    for ix in range(shard, n, shards):
        x = (ix + 0.5) / n * L - L / 2
        for iy in range(n):
            y = (iy + 0.5) / n * L - L / 2
            for iz in range(n):
                z = (iz + 0.5) / n * L - L / 2
                s = [x, y, z]
                for d in range(3):
                    for c in (1.0, -1.0):
                        r = verdict(rec, L, s, d, c, "lattice scan", {"L": L, "s": s, "d": d, "c1c2": c})
                        if r is None:
                            continue
                        rec.evaluations += 1
                        if r > 0.9:
                            rec.nontrivial.add(("scan", ix, iy, iz, d, c).__repr__().encode())
                        if r > 0.85:
                            best.append((r, s, d, c))
    rec.labels["lattice-points"] += rec.evaluations
    best.sort(key=lambda t: -t[0])
    # coordinate descent with shrinking steps from the best lattice points
    for r0, s0, d, c in best[:6]:
        s = list(s0)
        r = r0
        step = L / n
        while step > 1e-15 * L:
            improved = False
            for i in range(3):
                for sign in (1.0, -1.0):
                    t = list(s)
                    t[i] = min(max(t[i] + sign * step, -L / 2), math.nextafter(L / 2, 0.0))
                    if math.hypot(*t) < 1e-9 * L:
                        continue
                    rr = verdict(rec, L, t, d, c, "refinement", {"L": L, "s": t, "d": d, "c1c2": c})
                    rec.evaluations += 1
                    if rr is not None and rr > r:
                        r, s, improved = rr, t, True
            if not improved:
                step /= 2.0
        rec.maximum("max_ratio", r, {"L": L, "s": s, "d": d, "c1c2": c, "source": "refinement"})
        rec.case("refined>0.99" if r > 0.99 else "refined", ("refine", tuple(s0), d, c), r > 0.9,
                 {"start": s0, "end": s, "ratio": r, "direction": d, "c1c2": c})
    if best:
        rec.maximum("max_ratio_lattice", best[0][0], {"s": best[0][1], "d": best[0][2], "c1c2": best[0][3]})


# ------------------------------------------------------------------------------------------ generated separations

@st.composite
def separation_case(draw):
    L = draw(st.sampled_from([1.0, 1.0, 0.37, 2.5, 10.0]))
    half = L / 2.0
    top = math.nextafter(half, 0.0)
    d = draw(st.integers(0, 2))
    cls = draw(st.sampled_from(["bulk", "edge_mid", "edge_mid", "face", "corner", "origin"]))

    def on_face():
        e = draw(st.sampled_from([0.0, 1e-12, 1e-9, 1e-6, 1e-4, 1e-3, 1e-2, 5e-2])) * L
        return draw(st.sampled_from([-half + e, top - e]))
    s = [draw(gen.floats(-half, top)) for _ in range(3)]
    if cls == "edge_mid":
        # the supremum of q_true/q_bound: s_d -> 0-, the other two components on faces
        k = draw(st.integers(1, 14))
        s[d] = draw(st.sampled_from([-1.0, 1.0])) * 10.0 ** (-k) * L * draw(gen.floats(0.5, 2.0))
        s[(d + 1) % 3] = on_face()
        s[(d + 2) % 3] = on_face()
    elif cls == "face":
        s[draw(st.integers(0, 2))] = on_face()
    elif cls == "corner":
        s = [on_face(), on_face(), on_face()]
    elif cls == "origin":
        f = draw(gen.log_uniform(1e-8, 1e-2))
        s = [x * f for x in s]
    if math.hypot(*s) < 1e-9 * L:
        s[(d + 1) % 3] = 0.25 * L
    return {"L": L, "s": s, "d": d, "c1c2": draw(st.sampled_from([1.0, -1.0, 2.0, -0.5, 3.4, -1.7])), "cls": cls,
            "L2": draw(st.sampled_from([1.0, 0.37, 2.5, 10.0]))}


def body_generated(rec, L, s, d, c1c2, cls, L2):
    args = {"L": L, "s": s, "d": d, "c1c2": c1c2, "cls": cls, "L2": L2}
    r = verdict(rec, L, s, d, c1c2, "generated/" + cls, args)
    if r is None:
        return
    if currently_in_test_context():      # (not when replaying a saved case)
        target(r, label="ratio")
    rec.maximum("max_ratio", r, {"L": L, "s": s, "d": d, "c1c2": c1c2, "source": "generated/" + cls})
    if r > 0.05:
        # covariance: the ratio does not depend on the box length, the axis labelling or the charge magnitude
        sign = 1.0 if c1c2 > 0 else -1.0
        r_unit = verdict(rec, L, s, d, sign, "covariance", args)
        perm = [s[(d + i) % 3] for i in range(3)]
        r_perm = verdict(rec, L, perm, 0, c1c2, "covariance", args)
        s2 = [x * L2 / L for x in s]
        r_scaled = verdict(rec, L2, s2, d, c1c2, "covariance", args)
        # the absolute error of the lattice sum (see verdict) limits the accuracy of the ratio where both rates are
        # tiny (motion almost perpendicular to the separation): there the relation is not decidable
        qb = rates(L, s, d, c1c2)[1]
        floor = 2e-11 * abs(c1c2) / (L * L) / qb if qb > 0.0 else math.inf
        for name, other in (("charge-magnitude", r_unit), ("axis-permutation", r_perm), ("box-length", r_scaled)):
            if other is not None and abs(other - r) > 1e-8 * max(r, 1e-3) + 1e-9 + floor:
                rec.fail("domination/covariance/%s" % name, "ratio %r changes to %r under %s (L=%r -> %r, s=%r)"
                         % (r, other, name, L, L2, s), args)
    label = "%s/%s" % (cls, ">0.99" if r > 0.99 else (">0.9" if r > 0.9 else ("positive" if r > 0 else "no-true-rate")))
    rec.case(label, (L, tuple(s), d, c1c2), r > 0.9, args)


def _unwrap(f):
    return lambda rec, c=None, **kw: f(rec, **(c if c is not None else kw))


CHECKS = [
    Check("domination_scan", custom=scan, quick=72, thorough=240, quick_shards=8, thorough_shards=16,
          replay=lambda rec, a: verdict(rec, a["L"], a["s"], a["d"], a["c1c2"], "replay", a)),
    Check("domination_generated", _unwrap(body_generated), lambda: {"c": separation_case()}, quick=4000,
          thorough=60000, quick_shards=6),
]

try:  # parts (b) and (c) live in their own module (they need the run engine)
    from .C04_handlers import CHECKS as _HANDLER_CHECKS
    CHECKS = CHECKS + _HANDLER_CHECKS
except ImportError:
    pass
