"""C20 - multi-process mediator commits the same events as the single-process mediator.

Differential between two subprocesses (vlib/mp_worker.py) with harness-defined per-handler random streams; the
harness varies when each worker answers (drawn delay tables injected into every handler before the fork) and the
number of cores.  Liveness: a run is called dead only if no process of its group accumulates CPU time and its log
does not appear for 15 s; a merely slow run is inconclusive (counted, exit 0)."""
import json
import os
import shutil
import signal
import subprocess
import sys
import tempfile
import time

from hypothesis import strategies as st

from .. import build, configs
from ..runner import Check
from .C19 import localise

PROPERTY = "C20"
RULE = ("Hypothesis draws a configuration whose out-state computation draws no random numbers (shipped wirings with the "
        "pair handler replaced by the invertible TwoLeafUnitEventHandler: Coulomb-atom wiring with inverse-power "
        "potentials, N=2..6; dipole atom-factor wiring; the shipped single hard-disk dipole), a seed, the number of cores "
        "2..6, an end time, optionally a periodic no-op handler with an empty out-state (the shipped dumping handler, its write recorded instead of executed), a per-handler table of answer delays (0-6 ms) and an arrival policy (natural, or the harness hands the mediator one ready answer at a time: uniformly chosen, pre-computed out-states first, or out-states last). Two subprocesses run the single-process and "
        "the multi-process mediator with the same per-handler random streams. Oracle: identical sequences of (handler "
        "index, event time as float.hex, digest of the global state after the commit) and of written samples; after "
        "post_run no worker process is left; no deadlock. Non-trivial: a run with >= 40 commits in which the order "
        "of arriving candidate times differs from the single-process order in >= 1 leg; distinct by all drawn arguments.")
ASSUMPTIONS = ["the harness does not own the OS scheduler: explored schedules are those induced by the drawn delays, the arrival policy (which answer the mediator sees first among the ready ones) and "
               "core counts; the achieved arrival order is recorded (pushes) and reported",
               "per-handler streams are defined by the harness (seeded inside each forked worker on first use; "
               "setstate/getstate bracketing in the single-process run)",
               "private reads: Mediator._event_handlers_list/_state_handler/_scheduler/_input_output_handler, "
               "Scheduler._last_returned_event, MultiProcessMediator._os_processes"]


def soft_atoms(N, power, prefactor):
    text = configs.shipped_text("2018_JCP_149_064113/coulomb_atoms/power_bounded.ini")
    text = configs.set_option(text, "Coulomb", "event_handler", "two_leaf_unit_event_handler")
    text = configs.set_option(text, "Coulomb", "number_event_handlers", str(max(1, N - 1)))
    text = configs.set_option(text, "RandomInputHandler", "number_of_root_nodes", str(N))
    text += ("\n[TwoLeafUnitEventHandler]\npotential = inverse_power_potential\ncharge = electric_charge\n"
             "\n[InversePowerPotential]\npower = %r\nprefactor = %r\n" % (power, prefactor))
    return text


def soft_dipoles(N):
    text = configs.shipped_text("2018_JCP_149_064113/dipoles/atom_factors.ini")
    text = configs.set_option(text, "Coulomb", "event_handler", "coulomb_event_handler (two_leaf_unit_event_handler)")
    for sec, val in configs.sections_with(text, "number_event_handlers"):
        text = configs.set_option(text, sec, "number_event_handlers", str(int(val) * max(1, N - 1)))
    text = configs.set_option(text, "RandomInputHandler", "number_of_root_nodes", str(N))
    text += ("\n[CoulombEventHandler]\npotential = coulomb_soft_potential (inverse_power_potential)\n"
             "charge = electric_charge\n\n[CoulombSoftPotential]\npower = 1.0\nprefactor = 1.0\n")
    return text


@st.composite
def mp_case(draw):
    family = draw(st.sampled_from(["soft_atoms", "soft_atoms", "soft_dipoles", "hard_disk_dipole"]))
    c = {"family": family, "seed": draw(st.integers(0, 2 ** 31)), "cores": draw(st.integers(2, 6))}
    if family == "soft_atoms":
        c["N"] = draw(st.integers(2, 6))
        c["power"] = draw(st.sampled_from([1.0, 2.0, 6.0]))
        c["prefactor"] = draw(st.sampled_from([1.0, 0.3]))
        c["end"] = round(draw(st.floats(4.0, 12.0)), 3)
    elif family == "soft_dipoles":
        c["N"] = draw(st.integers(2, 3))
        c["end"] = round(draw(st.floats(2.0, 6.0)), 3)
    else:
        c["end"] = round(draw(st.floats(8.0, 25.0)), 3)
    c["events"] = draw(st.integers(80, 300))
    rows = draw(st.integers(1, 5))
    c["delays"] = [[draw(st.sampled_from([0.0, 0.0, 0.0005, 0.001, 0.003])) for _ in range(draw(st.integers(1, 4)))]
                   for _ in range(rows)]
    # order in which the mediator sees the workers' answers (see vlib/mp_worker.py)
    c["noop_period"] = draw(st.sampled_from([None, None, 0.07, 0.19, 0.31]))
    c["arrival"] = {"policy": draw(st.sampled_from(["natural", "one-random", "one-random", "out-first", "out-last"])),
                    "seed": draw(st.integers(0, 2 ** 31))}
    return c


def make_text(c):
    text = _base_text(c)
    # calibrate the end time from the event rate of a short in-process run (not part of the comparison)
    from .. import engine, monitor
    mon = monitor.HistoryMonitor()
    engine.run(configs.set_option(text, "FinalTimeEndOfRunEventHandler", "end_of_run_time", "100000.0"), c["seed"], 150,
               mon)
    t = (mon.last_commit_time[0] + mon.last_commit_time[1]) if mon.last_commit_time else 1.0
    end = round(max(c.get("events", 150) * max(t, 1e-9) / 150.0, 1e-6), 9)
    # keep the end of the run off the periodic events' times: an exact tie between two candidate events is resolved by
    # heap layout (known finding), so "the same sequence" is not defined for it
    periods = [float(v) for opt in ("sampling_interval", "chain_time") for _, v in configs.sections_with(text, opt)]
    for _ in range(50):
        if all(abs(end / p_ - round(end / p_)) > 1e-6 for p_ in periods if p_ > 0.0):
            break
        end = round(end * 1.00137, 9)
    text = configs.set_option(text, "FinalTimeEndOfRunEventHandler", "end_of_run_time", repr(end))
    if c.get("noop_period"):
        # a periodic handler with an EMPTY out-state and no out-state arguments (the shipped dumping handler; the worker
        # records its write instead of pickling the mediator): it can be pre-computed and its out-state is falsy
        from .C19 import add_dumping
        text = add_dumping(text, round(end * c["noop_period"], 9))
    return localise(text)


def _base_text(c):
    if c["family"] == "soft_atoms":
        text = soft_atoms(c["N"], c["power"], c["prefactor"])
    elif c["family"] == "soft_dipoles":
        text = soft_dipoles(c["N"])
    else:
        text = configs.shipped_text("hard_disk_dipoles/single_hard_disk_dipole.ini")
    return text


def cpu_of_group(pid):
    """Sum of utime+stime of the process and its descendants (via /proc)."""
    total = 0
    pids = [pid]
    try:
        out = subprocess.run(["ps", "-o", "pid=", "--ppid", str(pid)], capture_output=True, text=True).stdout.split()
        pids += [int(x) for x in out]
    except Exception:
        pass
    for p in pids:
        try:
            with open("/proc/%d/stat" % p) as f:
                parts = f.read().rsplit(")", 1)[1].split()
                total += int(parts[11]) + int(parts[12])
        except (OSError, IOError, IndexError, ValueError):
            pass
    return total


def run_worker(mode, ini, c, outdir, scratch):
    env = dict(os.environ)
    env["VERIF_SCRATCH"] = scratch
    here = os.path.dirname(os.path.dirname(os.path.dirname(os.path.abspath(__file__))))
    env["PYTHONPATH"] = here + os.pathsep + os.path.join(here, ".deps")
    p = subprocess.Popen([sys.executable, "-m", "vlib.mp_worker", mode, ini, str(c["seed"]), outdir, str(c["cores"]),
                          json.dumps({"tables": c["delays"], "arrival": c.get("arrival", {"policy": "natural", "seed": 0})}
                                     if mode == "multi" else [])], env=env, stdout=subprocess.PIPE,
                         stderr=subprocess.PIPE, text=True, cwd=here, start_new_session=True)
    return p


def wait_with_liveness(p, hard_limit=90.0):
    """returns ('done'|'dead'|'slow', stdout, stderr)"""
    last_cpu, last_change, t0 = -1, time.time(), time.time()
    while True:
        try:
            out, err = p.communicate(timeout=2.0)
            return "done", out, err
        except subprocess.TimeoutExpired:
            cpu = cpu_of_group(p.pid)
            now = time.time()
            if cpu != last_cpu:
                last_cpu, last_change = cpu, now
            if now - last_change > 15.0:
                verdict = "dead"
            elif now - t0 > hard_limit:
                verdict = "slow"
            else:
                continue
            try:
                os.killpg(os.getpgid(p.pid), signal.SIGKILL)
            except Exception:
                pass
            out, err = p.communicate()
            return verdict, out, err


def body(rec, c):
    scratch = build.scratch_root()
    work = tempfile.mkdtemp(prefix="jfmp_")
    try:
        ini = os.path.join(work, "case.ini")
        with open(ini, "w") as f:
            f.write(make_text(c))
        ps = run_worker("single", ini, c, os.path.join(work, "S"), scratch)
        pm = run_worker("multi", ini, c, os.path.join(work, "M"), scratch)
        s_verdict, so, se = wait_with_liveness(ps)
        m_verdict, mo, me = wait_with_liveness(pm)
        if s_verdict != "done" or ps.returncode != 0:
            rec.exclude("single-process reference run failed or too slow: %s" % (se[-200:].replace("\n", " ")))
            return
        if m_verdict == "dead":
            rec.fail("deadlock", "multi-process run made no progress for 15 s (no CPU time accumulated by any process of "
                     "its group): %s" % me[-300:], c)
            return
        if m_verdict == "slow":
            rec.exclude("multi-process run exceeded the time budget (inconclusive)")
            return
        if pm.returncode != 0:
            import re
            m = re.findall(r'File ".*?jellyfysh/(.*?)", line \d+, in (\w+)', me)
            last = re.findall(r"^(\w+(?:Error|Exception)\b.*)$", me, flags=re.M)
            sig = "multi-run-failed"
            if m:
                sig = "exception:%s@%s:%s" % ((last[-1].split(":")[0] if last else "Error"), m[-1][0], m[-1][1])
            rec.fail(sig, "multi-process run failed: %s" % me[-700:], c)
            return
        S = json.load(open(os.path.join(work, "S", "log.json")))
        M = json.load(open(os.path.join(work, "M", "log.json")))
        if S["commits"] != M["commits"]:
            n = min(len(S["commits"]), len(M["commits"]))
            i = next((j for j in range(n) if S["commits"][j] != M["commits"][j]), n)
            a, b = S["commits"][i:i + 1], M["commits"][i:i + 1]
            # two different handlers committed at the bit-identical time, from the same global state: the two mediators
            # resolved a tie between simultaneous candidates differently (recorded finding, see known_findings.json)
            tie = bool(a and b and a[0][2:4] == b[0][2:4] and a[0][0] != b[0][0] and (
                i == 0 or S["commits"][i - 1] == M["commits"][i - 1]))
            rec.fail("commit-sequence-differs" + ("/tie-order" if tie else ""),
                     "commit %d differs: single %r, multi %r (lengths %d / %d, cores %d)" % (
                         i, a, b, len(S["commits"]), len(M["commits"]), c["cores"]), c)
            if tie:
                return
        if S["writes"] != M["writes"]:
            rec.fail("samples-differ", "written samples differ (%d vs %d)" % (len(S["writes"]), len(M["writes"])), c)
        if M["status"] != "end_of_run":
            rec.fail("multi-no-end", "multi-process run ended with status %r" % M["status"], c)
        if M["children_after"] or M["alive_after"]:
            rec.fail("workers-left-behind", "after post_run %d active children, live worker pids %r"
                     % (M["children_after"], M["alive_after"]), c)
        reordered = S["pushes"] != M["pushes"]
        nt = len(M["commits"]) >= 40 and reordered
        rec.case("%s/cores%d/%s%s" % (c["family"], c["cores"], c.get("arrival", {}).get("policy", "natural"),
                                      "/reordered" if reordered else "/same-order"),
                 tuple(sorted((k, repr(v)) for k, v in c.items())), nt,
                 {"case": c, "commits": len(M["commits"]), "samples": len(M["writes"]), "workers": len(M["pids"]),
                  "arrival_order_differs": reordered})
    finally:
        shutil.rmtree(work, ignore_errors=True)


CHECKS = [Check("multi_vs_single", body, lambda: {"c": mp_case()}, quick=10, thorough=120, quick_shards=8,
                thorough_shards=8, shrink_quick=False)]
