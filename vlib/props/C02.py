"""C02 - candidate event distance inverts the cumulative uphill energy exactly.

Oracle: forward evaluation of the cumulative uphill energy E(x) (vlib/oracles/uphill.py) at the returned point -
bracketing E(x*-eta) <= dE <= E(x*+eta); hard cores: contact equation + no earlier contact."""
import math

from hypothesis import strategies as st

from .. import gen
from ..oracles import energies, uphill
from ..runner import Check

PROPERTY = "C02"
RULE = ("Hypothesis draws a potential (InversePower p in {1,2,6,12,0.5,3.7} both signs, LennardJones, "
        "DisplacedEvenPower p in {2,4,6}, periodic 1/r bounding potential (C), cell bounding potential (stub "
        "estimator), HardSphere, HardDipole), dimension, a separation constructed per geometric branch (in front / "
        "behind x inside / outside the minimum sphere x tangential x head-on x on the minimum sphere, |s| over 7 "
        "decades), direction, speed, charges and an energy budget (identity range [1e-6,1e3]*U_scale, totality range "
        "log-uniform down to 5e-324, branch-boundary budgets). Oracle: E(x*-eta) <= dE(1+tau) and E(x*+eta) >= "
        "dE(1-tau), eta=1e-9*(scale+x*), tau=1e-9; inf iff E(inf) < dE; totality: no exception, no NaN, x* >= "
        "-sqrt(eps)*scale. Non-trivial: finite x* preceded by a downhill piece, or >=1 box wrap, or a "
        "branch-boundary / tiny budget, or a hard-core contact; distinct by all drawn arguments.")
ASSUMPTIONS = ["separation vectors are non-zero; charges non-zero (constructor contract); velocities are positive "
               "and axis-parallel for the soft potentials (asserted by the code), arbitrary for hard potentials",
               "the oracle E(x) (sum of positive energy differences between turning points) is written from the "
               "docstring formulas and trusted"]

ETA = 1e-9
TAU = 1e-9
SQRT_EPS = 6e-8  # 4*sqrt(eps): x - sqrt(x^2 + d) with a few roundings in d


def init_cubic(L, dim=3):
    import jellyfysh.setting as setting
    from jellyfysh.setting import hypercubic_setting
    setting.reset()
    hypercubic_setting.HypercubicSetting(beta=1.0, dimension=dim, system_length=L)
    setting.set_number_of_root_nodes(2)
    setting.set_number_of_nodes_per_root_node(1)
    setting.set_number_of_node_levels(1)


# ---------------------------------------------------------------------------------------------------- geometry

@st.composite
def radial_geometry(draw, dim, r_ref):
    """Separation (s_d, transverse) relative to a reference length r_ref, constructed per branch."""
    branch = draw(st.sampled_from(["behind", "front", "tangential", "head_on", "on_sphere", "near_axis", "any"]))
    scale = r_ref * draw(st.one_of(gen.log_uniform(1e-3, 10.0), gen.floats(0.3, 3.0)))
    d = draw(st.integers(0, dim - 1))
    if dim == 1:
        branch = "head_on"
    trans = [draw(gen.floats(-1.0, 1.0)) for _ in range(dim - 1)]
    tn = math.hypot(*trans) if trans else 1.0
    if tn < 1e-3 and trans:
        trans, tn = [1.0] + [0.0] * (dim - 2), 1.0
    frac = draw(gen.floats(0.02, 0.98))
    rho = scale * frac
    sd = scale * math.sqrt(max(0.0, 1.0 - frac * frac))
    if branch == "behind":
        pass
    elif branch == "front":
        sd = -sd
    elif branch == "tangential":
        sd = draw(st.sampled_from([0.0, 1e-300, -1e-300, 1e-17 * scale, -1e-17 * scale, 1e-9 * scale,
                                   -1e-9 * scale]))
        rho = scale
    elif branch == "head_on":
        rho = 0.0
        sd = scale * draw(st.sampled_from([1.0, -1.0]))
    elif branch == "near_axis":
        rho = scale * draw(gen.log_uniform(1e-12, 1e-3))
        sd = scale * draw(st.sampled_from([1.0, -1.0]))
    elif branch == "on_sphere":
        rho = r_ref * frac
        sd = r_ref * math.sqrt(max(0.0, 1.0 - frac * frac)) * draw(st.sampled_from([1.0, -1.0]))
    else:
        sd = sd * draw(st.sampled_from([1.0, -1.0]))
    trans = [t / tn * rho for t in trans]
    if dim > 1 and rho == 0.0:
        trans = [0.0] * (dim - 1)
    s = trans[:d] + [sd] + trans[d:]
    return branch, d, s


def budget_strategy(u_scale):
    return st.one_of(
        gen.log_uniform(1e-6, 1e3).map(lambda f: ("identity", f * u_scale)),
        gen.floats(0.01, 5.0).map(lambda f: ("identity", f * u_scale)),
        gen.log_uniform(1e-300, 1e-6).map(lambda f: ("tiny", f * u_scale)),
        st.sampled_from([5e-324, 1e-320, 1e-310]).map(lambda f: ("tiny", f)),
        gen.log_uniform(1e3, 1e6).map(lambda f: ("huge", f * u_scale)),
    )


@st.composite
def radial_case(draw):
    kind = draw(st.sampled_from(["inverse_power", "inverse_power", "lennard_jones", "displaced_even_power"]))
    dim = draw(st.sampled_from([2, 3, 3]))
    speed = draw(st.one_of(st.just(1.0), gen.log_uniform(1e-3, 1e3)))
    c = {"kind": kind, "dim": dim, "speed": speed}
    if kind == "inverse_power":
        c["power"] = draw(st.sampled_from([1.0, 2.0, 6.0, 12.0, 0.5, 3.7]))
        c["k"] = draw(st.one_of(st.just(1.0), gen.log_uniform(1e-2, 1e2))) * draw(st.sampled_from([1.0, -1.0]))
        c["c1"] = draw(st.sampled_from([1.0, -1.0, 2.0, -0.5, 0.3]))
        c["c2"] = draw(st.sampled_from([1.0, -1.0, 2.0, -0.5, 1.7]))
        r_ref = 1.0
    elif kind == "lennard_jones":
        c["k"] = draw(st.one_of(st.just(1.0), gen.log_uniform(1e-2, 1e2)))
        c["sigma"] = draw(st.one_of(st.just(1.0), gen.log_uniform(0.05, 5.0)))
        r_ref = c["sigma"] * 2.0 ** (1.0 / 6.0)
    else:
        c["k"] = draw(st.one_of(st.just(1.0), gen.log_uniform(1e-2, 1e2)))
        c["power"] = draw(st.sampled_from([2, 4, 6]))
        c["r0"] = draw(st.one_of(st.just(1.0), gen.log_uniform(0.05, 5.0)))
        r_ref = c["r0"]
    branch, d, s = draw(radial_geometry(dim, r_ref))
    c["branch"], c["direction"], c["separation"] = branch, d, s
    # reference energy of the identity range: the largest finite |U| at the start and at the turning points of the path
    # (the inversion happens relative to the energy at the turning point where the climb starts; a budget far below it
    # is outside the well-conditioned range and only totality and sign are demanded there)
    rho2_ = sum(x * x for i, x in enumerate(s) if i != d)
    u_ = _radial_u(c)
    cands = [abs(u_(energies.norm(s)))]
    for tp in uphill.radial_turning_points(s[d], rho2_, _r_min(c)):
        cands.append(abs(u_(math.sqrt(rho2_ + (s[d] - tp) ** 2))))
    cands = [v for v in cands if v > 0.0 and not math.isinf(v) and not math.isnan(v)]
    u_scale = max(cands) if cands else abs(c["k"])
    if kind != "inverse_power":
        u_scale = max(u_scale, c["k"] * 1e-3)
    mode, budget = draw(budget_strategy(u_scale))
    if draw(st.integers(0, 5)) == 0:
        # budget exactly on a branch boundary: the energy difference to the next turning point
        rho2 = sum(x * x for i, x in enumerate(s) if i != d)
        u = _radial_u(c)
        for x in uphill.radial_turning_points(s[d], rho2, _r_min(c)):
            e = uphill.radial_uphill(u, s[d], rho2, x, _r_min(c))
            if e > 0.0 and not math.isinf(e):
                mode, budget = ("boundary" if e >= 1e-6 * u_scale else "tiny"), gen.step(e, draw(st.integers(-1, 1)))
                break
    c["mode"], c["budget"] = mode, budget
    return c


def _radial_u(c):
    if c["kind"] == "inverse_power":
        return energies.radial_inverse_power(c["k"], c["power"], c["c1"] * c["c2"])
    if c["kind"] == "lennard_jones":
        return energies.radial_lennard_jones(c["k"], c["sigma"])
    return energies.radial_displaced_even_power(c["k"], c["r0"], c["power"])


def _r_min(c):
    if c["kind"] == "inverse_power":
        return None
    if c["kind"] == "lennard_jones":
        return c["sigma"] * 2.0 ** (1.0 / 6.0)
    return c["r0"]


def _make_potential(c):
    if c["kind"] == "inverse_power":
        from jellyfysh.potential.inverse_power_potential import InversePowerPotential
        return InversePowerPotential(power=c["power"], prefactor=c["k"]), (c["c1"], c["c2"])
    if c["kind"] == "lennard_jones":
        from jellyfysh.potential.lennard_jones_potential import LennardJonesPotential
        return LennardJonesPotential(prefactor=c["k"], characteristic_length=c["sigma"]), ()
    from jellyfysh.potential.displaced_even_power_potential import DisplacedEvenPowerPotential
    return DisplacedEvenPowerPotential(equilibrium_separation=c["r0"], power=c["power"], prefactor=c["k"]), ()


def check_bracket(rec, name, args, x, budget, mode, E, scale, e_inf):
    """Shared verdict for soft potentials.  E: callable x -> cumulative uphill energy (x may be inf)."""
    if isinstance(x, float) and math.isnan(x):
        rec.fail("%s/nan" % name, "displacement returned NaN (budget %r, mode %s)" % (budget, mode), args)
        return "nan"
    if x < -SQRT_EPS * scale:
        rec.fail("%s/negative" % name, "displacement %r is negative beyond rounding (scale %r)" % (x, scale), args)
        return "negative"
    if mode in ("tiny", "huge"):
        # outside the well-conditioned range the property demands totality and sign only
        return "totality"
    if math.isinf(x):
        if e_inf >= budget * (1.0 + TAU):
            rec.fail("%s/false-infinity" % name, "displacement is inf but the path accumulates %r >= budget %r"
                     % (e_inf, budget), args)
        return "inf"
    if e_inf < budget * (1.0 - TAU):
        rec.fail("%s/missed-infinity" % name, "displacement %r is finite but the whole path accumulates only %r < "
                 "budget %r" % (x, e_inf, budget), args)
        return "finite"
    eta = ETA * (scale + abs(x))
    lo = E(max(0.0, x - eta))
    hi = E(x + eta)
    if lo > budget * (1.0 + TAU):
        rec.fail("%s/overshoot" % name, "returned displacement %r lies beyond the first-passage point: E(x*-eta) = %r "
                 "> budget %r" % (x, lo, budget), args)
    if hi < budget * (1.0 - TAU):
        rec.fail("%s/undershoot" % name, "returned displacement %r lies before the first-passage point: E(x*+eta) = "
                 "%r < budget %r" % (x, hi, budget), args)
    return "finite"


def body_radial(rec, **c):
    pot, charges = _make_potential(c)
    d, s, speed, budget, mode = c["direction"], c["separation"], c["speed"], c["budget"], c["mode"]
    velocity = [0.0] * c["dim"]
    velocity[d] = speed
    rho2 = sum(x * x for i, x in enumerate(s) if i != d)
    u = _radial_u(c)
    rmin = _r_min(c)
    t = pot.displacement(velocity, list(s), *charges, budget)
    x = t * speed
    scale = max(energies.norm(s), rmin or 0.0)

    def E(xx):
        return uphill.radial_uphill(u, s[d], rho2, xx, rmin)
    e_inf = E(math.inf)
    outcome = check_bracket(rec, c["kind"], c, x, budget, mode, E, scale, e_inf)
    downhill_first = (s[d] > 0.0 and u(energies.norm(s)) > u(math.sqrt(rho2))) or \
                     (rmin is not None and ((s[d] <= 0.0 and energies.norm(s) < rmin)
                                            or (s[d] > 0.0 and energies.norm(s) > rmin)))
    nt = (outcome == "finite" and downhill_first) or mode in ("boundary", "tiny") or c["branch"] in (
        "head_on", "tangential", "on_sphere")
    sign = ""
    if c["kind"] == "inverse_power":
        sign = "+rep" if c["k"] * c["c1"] * c["c2"] > 0 else "+att"
    rec.case("%s%s/%s/%s/%s" % (c["kind"], sign, c["branch"], mode, outcome), tuple(sorted(
        (k, tuple(v) if isinstance(v, list) else v) for k, v in c.items())), nt, c)


# ---------------------------------------------------------------------------------------------------- periodic 1/r

@st.composite
def periodic_case(draw):
    L = draw(st.sampled_from([1.0, 1.0, 0.37, 2.5, 10.0]))
    k = draw(st.sampled_from([1.5837, 1.0, 3.0]))
    c1 = draw(st.sampled_from([1.0, -1.0, 2.0, -0.5]))
    c2 = draw(st.sampled_from([1.0, -1.0, 2.0, 1.7]))
    d = draw(st.integers(0, 2))
    half = L / 2.0
    branch = draw(st.sampled_from(["bulk", "bulk", "tangential", "head_on", "face", "near_axis", "close"]))

    def comp():
        return draw(gen.floats(-half, math.nextafter(half, 0.0)))
    s = [comp(), comp(), comp()]
    if branch == "tangential":
        s[d] = draw(st.sampled_from([0.0, 1e-300, -1e-300, 1e-17 * L, -1e-17 * L]))
    elif branch == "head_on":
        for i in range(3):
            if i != d:
                s[i] = 0.0
        if s[d] == 0.0:
            s[d] = 0.25 * L
    elif branch == "face":
        s[d] = draw(st.sampled_from([-half, math.nextafter(half, 0.0), math.nextafter(-half, 0.0) * 0 - half]))
    elif branch == "near_axis":
        for i in range(3):
            if i != d:
                s[i] = L * draw(gen.log_uniform(1e-12, 1e-3)) * draw(st.sampled_from([1.0, -1.0]))
    elif branch == "close":
        f = draw(gen.log_uniform(1e-6, 1e-1))
        s = [x * f for x in s]
    if math.hypot(*s) < 1e-9 * L:
        s[(d + 1) % 3] = 0.1 * L
    rho_ = math.sqrt(sum(x * x for i, x in enumerate(s) if i != d))
    u_scale = abs(k * c1 * c2) / min(energies.norm(s), rho_ if rho_ > 0.0 else math.inf)
    mode, budget = draw(budget_strategy(u_scale))
    wraps = draw(st.sampled_from([0, 0, 1, 3, 17]))
    rho2 = sum(x * x for i, x in enumerate(s) if i != d)
    if wraps and rho2 > 0.0 and mode == "identity":
        per = abs(k * c1 * c2) * abs(1.0 / math.sqrt(rho2) - 1.0 / math.sqrt(rho2 + half * half))
        budget = budget % per + wraps * per if per > 0 else budget
        mode = "identity"
    if draw(st.integers(0, 6)) == 0 and rho2 > 0.0:
        # branch boundary: exactly the energy needed to reach the next turning point
        kc = k * c1 * c2
        tp = s[d] if (kc > 0 and s[d] > 0) else (s[d] + half if (kc < 0 and s[d] <= 0) else None)
        if tp is not None and tp > 0:
            e = uphill.periodic_coulomb_uphill(kc, s[d], rho2, L, tp)
            if e > 0:
                # (a branch boundary far below the potential itself - a climb of 1e-13 |U| - is outside the
                # well-conditioned range like any other such budget: totality and sign only)
                mode, budget = ("boundary" if e >= 1e-6 * u_scale else "tiny"), gen.step(e, draw(st.integers(-1, 1)))
    speed = draw(st.one_of(st.just(1.0), gen.log_uniform(1e-3, 1e3)))
    return {"L": L, "k": k, "c1": c1, "c2": c2, "direction": d, "separation": s, "branch": branch, "mode": mode,
            "budget": budget, "speed": speed}


def body_periodic(rec, **c):
    init_cubic(c["L"])
    from jellyfysh.potential.inverse_power_coulomb_bounding_potential import InversePowerCoulombBoundingPotential
    pot = InversePowerCoulombBoundingPotential(prefactor=c["k"])
    d, s, L = c["direction"], c["separation"], c["L"]
    velocity = [0.0, 0.0, 0.0]
    velocity[d] = c["speed"]
    kc = c["k"] * c["c1"] * c["c2"]
    rho2 = sum(x * x for i, x in enumerate(s) if i != d)
    t = pot.displacement(velocity, list(s), c["c1"], c["c2"], c["budget"])
    x = t * c["speed"]

    def E(xx):
        return uphill.periodic_coulomb_uphill(kc, s[d], rho2, L, xx)
    outcome = check_bracket(rec, "periodic", c, x, c["budget"], c["mode"], E, L, math.inf)
    wraps = 0 if math.isinf(x) or math.isnan(x) else int(x // L)
    nt = wraps >= 1 or c["mode"] in ("boundary", "tiny") or c["branch"] in ("head_on", "tangential", "face") or (
        outcome == "finite" and ((kc > 0 and s[d] <= 0) or (kc < 0 and s[d] > 0)))
    rec.case("periodic%s/%s/%s/wraps%s/%s" % ("+rep" if kc > 0 else "+att", c["branch"], c["mode"],
                                             "0" if wraps == 0 else ("1" if wraps == 1 else ">=2"), outcome),
             tuple(sorted((k, tuple(v) if isinstance(v, list) else v) for k, v in c.items())), nt, c)


# ---------------------------------------------------------------------------------------------------- hard cores

@st.composite
def hard_case(draw):
    kind = draw(st.sampled_from(["sphere", "dipole"]))
    dim = draw(st.integers(1, 3))
    r = draw(st.one_of(st.just(0.5), gen.log_uniform(1e-2, 10.0), gen.log_uniform(1e-7, 1e-2)))
    c = {"kind": kind, "dim": dim}
    if kind == "sphere":
        c["radius"] = r
        inner, outer = 2.0 * r, None
    else:
        c["min_sep"] = r
        c["max_sep"] = r * draw(st.one_of(gen.floats(1.01, 3.0), gen.log_uniform(1.0001, 100.0)))
        inner, outer = c["min_sep"], c["max_sep"]
    # separation: direction on the sphere x norm per class
    vec = [draw(gen.floats(-1.0, 1.0)) for _ in range(dim)]
    n = math.hypot(*vec)
    if n < 1e-3:
        vec, n = [1.0] + [0.0] * (dim - 1), 1.0
    vec = [v / n for v in vec]
    cls = draw(st.sampled_from(["inner_contact", "outer_contact", "between", "far"]))
    if cls == "inner_contact":
        norm = inner * (1.0 + draw(st.sampled_from([0.0, 1e-16, 2e-16, 1e-15, 1e-14])))
    elif cls == "outer_contact" and outer is not None:
        norm = outer * (1.0 - draw(st.sampled_from([0.0, 1e-16, 2e-16, 1e-15, 1e-14])))
    elif outer is not None:
        norm = inner + (outer - inner) * draw(gen.floats(0.0, 1.0))
    else:
        norm = inner * (1.0 + draw(st.one_of(gen.floats(0.0, 5.0), gen.log_uniform(1e-9, 1e3))))
    s = [v * norm for v in vec]
    # make sure the code's own precondition holds after rounding
    n2 = sum(x * x for x in s)
    if n2 - inner * inner <= -1.0e-13 or (outer is not None and outer * outer - n2 <= -1.0e-13):
        s = [x * (1.0 + 4e-16) if n2 < inner * inner else x * (1.0 - 4e-16) for x in s]
    vkind = draw(st.sampled_from(["axis", "general", "towards", "grazing"]))
    speed = draw(st.one_of(st.just(1.0), gen.log_uniform(1e-3, 1e3), gen.log_uniform(1e-8, 1e-3)))
    if vkind == "axis":
        v = [0.0] * dim
        v[draw(st.integers(0, dim - 1))] = speed * draw(st.sampled_from([1.0, -1.0]))
    elif vkind == "towards":
        v = [x / math.sqrt(n2) * speed for x in s]
    elif vkind == "grazing" and dim >= 2:
        # impact parameter close to the inner diameter
        b = inner * (1.0 + draw(st.sampled_from([-1e-2, -1e-3, -1e-6, -1e-9, -1e-13, 0.0, 1e-13, 1e-9, 1e-6, 1e-4, 1e-3,
                                                 1e-2, 5e-2])))
        sn = math.sqrt(n2)
        sin_a = min(1.0, b / sn)
        cos_a = math.sqrt(max(0.0, 1.0 - sin_a * sin_a))
        e1 = [x / sn for x in s]
        # any unit vector orthogonal to e1
        j = min(range(dim), key=lambda i: abs(e1[i]))
        e2 = [-e1[i] * e1[j] for i in range(dim)]
        e2[j] += 1.0
        m = math.sqrt(sum(y * y for y in e2))
        e2 = [y / m for y in e2]
        v = [speed * (cos_a * a + sin_a * bb) for a, bb in zip(e1, e2)]
    else:
        v = [draw(gen.floats(-1.0, 1.0)) for _ in range(dim)]
        vn = math.hypot(*v)
        v = [x / vn * speed for x in v] if vn > 1e-3 else [speed] + [0.0] * (dim - 1)
    c.update({"separation": s, "velocity": v, "cls": cls, "vkind": vkind})
    return c


def body_hard(rec, **c):
    s, v = c["separation"], c["velocity"]
    if c["kind"] == "sphere":
        from jellyfysh.potential.hard_sphere_potential import HardSpherePotential
        pot = HardSpherePotential(radius=c["radius"])
        inner, outer = 2.0 * c["radius"], None
    else:
        from jellyfysh.potential.hard_dipole_potential import HardDipolePotential
        pot = HardDipolePotential(minimum_separation=c["min_sep"], maximum_separation=c["max_sep"])
        inner, outer = c["min_sep"], c["max_sep"]
    t = pot.displacement(list(v), list(s))
    v2 = math.fsum(x * x for x in v)
    vs = math.fsum(a * b for a, b in zip(v, s))
    s2 = math.fsum(x * x for x in s)
    scale = max(math.sqrt(s2), inner)
    tscale = scale / math.sqrt(v2)

    def g(tt):
        """squared separation at time tt"""
        return math.fsum((a - b * tt) ** 2 for a, b in zip(s, v))
    tol = 1e-9 * scale * scale
    if math.isnan(t):
        rec.fail("hard/nan", "displacement returned NaN", c)
    # the code accepts squared separations up to 1e-13 inside the core (boundary states produced by earlier events)
    # and the root of a rounded difference of squares carries sqrt(eps)*scale: both are "rounding" here
    if t < -math.sqrt(1e-13 + 16 * 2.3e-16 * scale * scale) / math.sqrt(v2):
        rec.fail("hard/negative", "time %r negative beyond rounding (time scale %r)" % (t, tscale), c)
    t_vertex = max(0.0, vs / v2)
    g_min_ahead = g(t_vertex)  # smallest separation ever reached on the half line t >= 0
    outcome = None
    if math.isinf(t):
        outcome = "inf"
        if outer is not None:
            rec.fail("hard/dipole-inf", "hard dipole returned an infinite time although the bond cannot exceed its "
                     "maximum", c)
        if g_min_ahead < inner * inner - tol:
            rec.fail("hard/missed-contact", "infinite time but the path reaches separation %r < contact %r"
                     % (math.sqrt(g_min_ahead), inner), c)
    else:
        gt = g(max(t, 0.0))
        at_inner = abs(gt - inner * inner) <= tol
        at_outer = outer is not None and abs(gt - outer * outer) <= tol
        if not (at_inner or at_outer):
            rec.fail("hard/not-at-contact", "at the returned time %r the separation is %r, neither the contact "
                     "distance %r nor the maximum %r" % (t, math.sqrt(gt), inner, outer), c)
        # no earlier contact: squared distance is a convex parabola -> extremes on [0,t] at ends and vertex
        tv = min(max(t_vertex, 0.0), max(t, 0.0))
        if g(tv) < inner * inner - tol:
            rec.fail("hard/earlier-contact", "before the returned time %r the separation drops to %r < %r"
                     % (t, math.sqrt(g(tv)), inner), c)
        if at_outer and not at_inner:
            # leaving through the outer shell is the first event only if the inner shell is never hit before
            if g_min_ahead < inner * inner - tol and t_vertex < t:
                rec.fail("hard/earlier-contact", "outer shell returned but inner contact happens first", c)
        if at_inner and outer is None and vs < 0 and t > SQRT_EPS * tscale:
            rec.fail("hard/receding-contact", "contact reported while the spheres move apart", c)
        outcome = "inner" if at_inner else "outer"
    nt = outcome in ("inner", "outer") and c["cls"] in ("between", "far", "inner_contact", "outer_contact")
    rec.case("%s/%s/%s/%s" % (c["kind"], c["cls"], c["vkind"], outcome),
             tuple(sorted((k, tuple(vv) if isinstance(vv, list) else vv) for k, vv in c.items())), nt, c)


def _unwrap(f):
    return lambda rec, c=None, **kw: f(rec, **(c if c is not None else kw))


CHECKS = [
    Check("radial", _unwrap(body_radial), lambda: {"c": radial_case()}, quick=2500, thorough=40000,
          quick_shards=6),
    Check("periodic", _unwrap(body_periodic), lambda: {"c": periodic_case()}, quick=2000, thorough=30000,
          quick_shards=5),
    Check("hard", _unwrap(body_hard), lambda: {"c": hard_case()}, quick=2500, thorough=40000, quick_shards=5),
]
