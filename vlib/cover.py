"""Optional line coverage of the scratch copy of the package (development aid, not part of any check).

VERIF_COVERAGE=<dir> makes every process that runs checks record which lines of <scratch>/jellyfysh/**.py it executed
(sys.monitoring, each line reported once and then disabled, so the overhead is small) and write them to
<dir>/<pid>.json when `dump()` is called (end of a shard / end of the main process).  ./tools_coverage.py merges."""
import json
import os
import sys

_lines = {}
_root = None
TOOL = 3


def start(root):
    global _root
    if not os.environ.get("VERIF_COVERAGE") or _root is not None or not hasattr(sys, "monitoring"):
        return
    _root = os.path.join(root, "jellyfysh") + os.sep
    mon = sys.monitoring
    try:
        mon.use_tool_id(TOOL, "verif-cover")
    except ValueError:
        return

    def on_line(code, line):
        f = code.co_filename
        if f.startswith(_root):
            _lines.setdefault(f[len(_root):], set()).add(line)
        return mon.DISABLE
    mon.register_callback(TOOL, mon.events.LINE, on_line)
    mon.set_events(TOOL, mon.events.LINE)


def dump():
    d = os.environ.get("VERIF_COVERAGE")
    if not d or _root is None:
        return
    os.makedirs(d, exist_ok=True)
    with open(os.path.join(d, "%d.json" % os.getpid()), "w") as f:
        json.dump({k: sorted(v) for k, v in _lines.items()}, f)
