"""Subprocess worker for C19: runs a configuration (or resumes a dump) with class-level recorders and writes a log.

usage:  python -m vlib.dump_worker run    <ini file> <seed> <outdir> <max records>
        python -m vlib.dump_worker resume <dump file>      <outdir> <max records>

Only classes that are NOT Initializers are patched (at class level), so nothing of the harness ends up in a dump:
HeapScheduler / ListScheduler.get_succeeding_event, InputOutputHandler.write, DumpingOutputHandler.write.
Log lines (JSON): ["get", handler class, [q.hex, r.hex], state digest]   state = full global state after the previous
commit;  ["write", output handler name, state digest];  ["dump", k, number of get records so far]."""
import contextlib
import hashlib
import io
import json
import os
import random
import shutil
import sys


class Done(Exception):
    pass


STATE = {"mediator": None, "log": None, "gets": 0, "max": None, "dumps": 0, "outdir": None}


def digest_state(mediator):
    parts = []

    def walk(cnode):
        u = cnode.value
        parts.append(repr(u.identifier))
        parts.append(",".join(x.hex() for x in u.position))
        parts.append("None" if u.velocity is None else ",".join(x.hex() for x in u.velocity))
        parts.append("None" if u.time_stamp is None else u.time_stamp.quotient.hex() + "/" + u.time_stamp.remainder.hex())
        for ch in cnode.children:
            walk(ch)
    for root in mediator._state_handler.extract_global_state():
        walk(root)
    text = "|".join(parts)
    moving = sum(1 for p in parts[2::4] if p != "None")
    return hashlib.blake2b(text.encode(), digest_size=12).hexdigest() + ":%d" % moving, text


def install():
    from jellyfysh.scheduler.heap_scheduler.heap_scheduler import HeapScheduler
    from jellyfysh.scheduler.list_scheduler import ListScheduler
    from jellyfysh.input_output_handler.input_output_handler import InputOutputHandler
    from jellyfysh.input_output_handler.output_handler.dumping_output_handler import DumpingOutputHandler

    def wrap_get(cls):
        real = cls.get_succeeding_event

        def get_succeeding_event(self):
            h = real(self)
            t = self._last_returned_event[0]
            d, text = digest_state(STATE["mediator"])
            rec = ["get", h.__class__.__name__, [float(t.quotient).hex(), float(t.remainder).hex()], d]
            if os.environ.get("VERIF_DUMP_FULL"):
                rec.append(text)
            STATE["log"].write(json.dumps(rec) + "\n")
            STATE["gets"] += 1
            if STATE["max"] is not None and STATE["gets"] >= STATE["max"]:
                raise Done()
            return h
        cls.get_succeeding_event = get_succeeding_event
    wrap_get(HeapScheduler)
    wrap_get(ListScheduler)

    real_write = InputOutputHandler.write

    def write(self, name, *args):
        if args and isinstance(args[0], (list, tuple)):
            d, _ = digest_state(STATE["mediator"])
            STATE["log"].write(json.dumps(["write", name, d]) + "\n")
        return real_write(self, name, *args)
    InputOutputHandler.write = write

    real_dump = DumpingOutputHandler.write

    def dump_write(self, mediator):
        real_dump(self, mediator)
        k = STATE["dumps"]
        STATE["dumps"] += 1
        shutil.copy(self._output_filename, os.path.join(STATE["outdir"], "dump_%d.bin" % k))
        STATE["log"].write(json.dumps(["dump", k, STATE["gets"]]) + "\n")
        STATE["log"].flush()
    DumpingOutputHandler.write = dump_write


def main():
    mode = sys.argv[1]
    scratch = os.environ["VERIF_SCRATCH"]
    sys.path.insert(0, scratch)
    if os.environ.get("VERIF_COVERAGE"):     # development aid, see vlib/cover.py
        sys.path.insert(1, os.path.dirname(os.path.dirname(os.path.abspath(__file__))))
        from vlib import cover
        cover.start(scratch)
        import atexit
        atexit.register(cover.dump)
    import jellyfysh
    assert os.path.realpath(jellyfysh.__file__).startswith(os.path.realpath(scratch))
    from jellyfysh.base.exceptions import EndOfRun
    if mode == "run":
        ini, seed, outdir, maxrec = sys.argv[2], int(sys.argv[3]), sys.argv[4], int(sys.argv[5])
    else:
        dump, outdir, maxrec = sys.argv[2], sys.argv[3], int(sys.argv[4])
    os.makedirs(outdir, exist_ok=True)
    os.chdir(outdir)
    STATE["outdir"] = outdir
    STATE["max"] = maxrec if maxrec > 0 else None
    STATE["log"] = open(os.path.join(outdir, "log.jsonl"), "w")
    install()
    status = "end_of_run"
    # the real entry points are executed (jellyfysh.run.main / jellyfysh.resume.main); the mediator is captured by a
    # class-level wrapper of SingleProcessMediator.run (Mediator classes are not Initializers)
    from jellyfysh.mediator.single_process_mediator import SingleProcessMediator
    real_run = SingleProcessMediator.run

    def run_wrapper(self):
        STATE["mediator"] = self
        return real_run(self)
    SingleProcessMediator.run = run_wrapper
    import logging
    with contextlib.redirect_stdout(io.StringIO()):
        try:
            if mode == "run":
                random.seed(seed)
                import jellyfysh.run as jf_run
                sys.argv = ["jellyfysh", ini]
                jf_run.main()
            else:
                import jellyfysh.resume as jf_resume
                sys.argv = ["jellyfysh-resume", dump]
                jf_resume.main()
        except Done:
            status = "budget"
            try:
                STATE["mediator"].post_run()
            except Exception:
                pass
    logging.shutdown()
    STATE["log"].write(json.dumps(["end", status]) + "\n")
    STATE["log"].close()


if __name__ == "__main__":
    main()
