"""Subprocess worker for C20: runs one configuration under the single-process or the multi-process mediator with
per-event-handler random streams, injected answer delays and recorders, and writes a JSON log.

usage: python -m vlib.mp_worker <single|multi> <ini> <case seed> <outdir> <cores> <delay table json>

Per-handler streams: handler i uses the stream random.Random(f(seed, i)).  Multi-process: the wrapper seeds the
worker's global `random` on its first call inside the forked worker (forked workers reseed `random` from OS entropy
otherwise).  Single-process: every handler call is bracketed by setstate/getstate of its own stream."""
import contextlib
import hashlib
import io
import json
import multiprocessing
import os
import random
import sys
import time


def stream_seed(seed, index):
    return int.from_bytes(hashlib.blake2b(("%d/%d" % (seed, index)).encode(), digest_size=8).digest(), "big")


def digest(state_handler):
    parts = []

    def walk(cnode):
        u = cnode.value
        parts.append(repr(u.identifier) + ",".join(x.hex() for x in u.position)
                     + ("None" if u.velocity is None else ",".join(x.hex() for x in u.velocity))
                     + ("None" if u.time_stamp is None else u.time_stamp.quotient.hex() + u.time_stamp.remainder.hex()))
        for ch in cnode.children:
            walk(ch)
    for root in state_handler.extract_global_state():
        walk(root)
    return hashlib.blake2b("|".join(parts).encode(), digest_size=12).hexdigest()


def main():
    mode, ini, seed, outdir, cores, delays = sys.argv[1], sys.argv[2], int(sys.argv[3]), sys.argv[4], int(sys.argv[5]), \
        json.loads(sys.argv[6])
    arrival = {"policy": "natural", "seed": 0}
    if isinstance(delays, dict):
        arrival = delays.get("arrival", arrival)
        delays = delays.get("tables", [])
    scratch = os.environ["VERIF_SCRATCH"]
    sys.path.insert(0, scratch)
    if os.environ.get("VERIF_COVERAGE"):     # development aid, see vlib/cover.py
        sys.path.insert(1, os.path.dirname(os.path.dirname(os.path.abspath(__file__))))
        from vlib import cover
        cover.start(scratch)
        import atexit
        atexit.register(cover.dump)
    from configparser import ConfigParser
    from jellyfysh.base import factory
    from jellyfysh.base.exceptions import EndOfRun
    from jellyfysh.base.strings import to_camel_case
    os.makedirs(outdir, exist_ok=True)
    os.chdir(outdir)
    log = {"commits": [], "writes": [], "pushes": [], "status": None, "children_after": None, "pids": []}
    config = ConfigParser()
    config.read(ini)
    random.seed(seed)
    main_pid = os.getpid()

    def wrap_handlers(handlers):
        streams = {}
        for index, h in enumerate(handlers):
            streams[index] = random.Random(stream_seed(seed, index)).getstate()
            real_time, real_out = h.send_event_time, h.send_out_state
            table = delays[index % len(delays)] if delays else [0.0]
            state = {"calls": 0, "seeded_pid": None}

            def enter(index=index, state=state):
                if os.getpid() != main_pid:
                    if state["seeded_pid"] != os.getpid():
                        random.seed(stream_seed(seed, index))
                        state["seeded_pid"] = os.getpid()
                    return None
                saved = random.getstate()
                random.setstate(streams[index])
                return saved

            def leave(saved, index=index):
                if saved is not None:
                    streams[index] = random.getstate()
                    random.setstate(saved)

            def send_event_time(*args, real=real_time, state=state, table=table, enter=enter, leave=leave, index=index):
                saved = enter()
                try:
                    ret = real(*args)
                finally:
                    leave(saved)
                if os.environ.get("VERIF_MP_DEBUG"):
                    sys.stderr.write("DBG pid=%d main=%s h=%d ret=%r\n" % (os.getpid(), os.getpid() == main_pid, index, ret if not hasattr(ret, "quotient") else (ret.quotient, ret.remainder)))
                d = table[state["calls"] % len(table)]
                state["calls"] += 1
                if d > 0 and os.getpid() != main_pid:
                    time.sleep(d)
                return ret

            def send_out_state(*args, real=real_out, state=state, table=table, enter=enter, leave=leave):
                saved = enter()
                try:
                    ret = real(*args)
                finally:
                    leave(saved)
                d = table[(state["calls"] + 1) % len(table)]
                if d > 0 and os.getpid() != main_pid:
                    time.sleep(d / 2.0)
                return ret
            h.send_event_time, h.send_out_state = send_event_time, send_out_state

    with contextlib.redirect_stdout(io.StringIO()):
        factory.build_from_config(config, to_camel_case(config.get("Run", "setting")), "jellyfysh.setting")
        if mode == "multi":
            from jellyfysh.mediator.multi_process_mediator.multi_process_mediator import MultiProcessMediator
            from jellyfysh.mediator.multi_process_mediator import multi_process_mediator as mpm_module
            if arrival["policy"] != "natural":
                # The harness owns the order in which the mediator *sees* the workers' answers: the module's
                # `connection.wait` hands over one ready pipe at a time, chosen by a generator seeded from the case
                # (uniformly, or preferring / deferring answers that are pre-computed out-states).
                real_connection = mpm_module.connection
                chooser = random.Random(arrival["seed"])
                holder = {}

                class Arrival(object):
                    def __getattr__(self, name):
                        return getattr(real_connection, name)

                    def wait(self, pipes, timeout=None):
                        ready = real_connection.wait(pipes, timeout)
                        if not ready:
                            return ready
                        time.sleep(0.0005)       # let answers that are about to arrive join the choice
                        ready = real_connection.wait(pipes, 0) or ready
                        if len(ready) > 1 and arrival["policy"] in ("out-first", "out-last") and "m" in holder:
                            states = holder["m"]._event_handlers_state
                            outs = [p for p in ready if getattr(states.get(p), "name", "") == "out_state_started"]
                            rest = [p for p in ready if p not in outs]
                            group = (outs or rest) if arrival["policy"] == "out-first" else (rest or outs)
                            return [group[chooser.randrange(len(group))]]
                        return [ready[chooser.randrange(len(ready))]]
                mpm_module.connection = Arrival()
                real_run = MultiProcessMediator.run

                def run(self):
                    holder["m"] = self
                    return real_run(self)
                MultiProcessMediator.run = run
            real_start = MultiProcessMediator._start_processes

            def start_processes(self):
                wrap_handlers(self._event_handlers_list)   # before the workers are forked
                real_start(self)
                log["pids"] = [p.pid for p in self._os_processes]
            MultiProcessMediator._start_processes = start_processes
            section = "MultiProcessMediator"
            if not config.has_section(section):
                config.add_section(section)
                for k, v in config.items("SingleProcessMediator"):
                    config.set(section, k, v)
            config.set(section, "number_cores", str(cores))
            mediator = factory.build_from_config(config, section, "jellyfysh.mediator")
        else:
            mediator = factory.build_from_config(config, "SingleProcessMediator", "jellyfysh.mediator")
            wrap_handlers(mediator._event_handlers_list)
    handlers = list(mediator._event_handlers_list)
    index_of = {id(h): i for i, h in enumerate(handlers)}
    sh, sched, io_h = mediator._state_handler, mediator._scheduler, mediator._input_output_handler
    depth = {"n": 0}
    real_insert = sh.insert_into_global_state

    def insert(out_state):
        if depth["n"]:
            return real_insert(out_state)
        depth["n"] += 1
        try:
            real_insert(out_state)
        finally:
            depth["n"] -= 1
        h = mediator._event_handler_with_shortest_event_time
        t = sched._last_returned_event[0]
        log["commits"].append([index_of[id(h)], h.__class__.__name__, t.quotient.hex(), t.remainder.hex(), digest(sh)])
    sh.insert_into_global_state = insert
    real_push = sched.push_event

    def push(t, h):
        log["pushes"].append(index_of[id(h)])
        return real_push(t, h)
    sched.push_event = push
    real_write = io_h.write

    def write(name, *args):
        if name == "dumping_output_handler":
            # the periodic no-op handler of the harness' configurations: recorded, the mediator is not pickled
            log["writes"].append([name, digest(sh)])
            return None
        if args and isinstance(args[0], (list, tuple)):
            log["writes"].append([name, digest(sh)])
        return real_write(name, *args)
    io_h.write = write
    # pre-computed out-states: count those computed, used and discarded (multi only; read from the mediator's dictionary)
    with contextlib.redirect_stdout(io.StringIO()):
        try:
            mediator.run()
        except EndOfRun:
            log["status"] = "end_of_run"
        mediator.post_run()
    time.sleep(0.2)
    log["children_after"] = len(multiprocessing.active_children())
    alive = []
    for pid in log["pids"]:
        try:
            os.kill(pid, 0)
            with open("/proc/%d/stat" % pid) as f:
                if f.read().split()[2] != "Z":
                    alive.append(pid)
        except (OSError, IOError):
            pass
    log["alive_after"] = alive
    with open(os.path.join(outdir, "log.json"), "w") as f:
        json.dump(log, f)


if __name__ == "__main__":
    main()
