"""History monitor: per-event invariants C07 C08 C09 C11 C12 C13(run part) C17 and the warning part of C04,
evaluated on the callbacks of vlib/engine.py while the real mediator loop runs."""
import math
from collections import Counter

from .engine import Monitor, snapshot_tree

EPS = 2.220446049250313e-16


def tt(time):
    return (time.quotient, time.remainder)


def tdiff(t1, t0):
    """t1 - t0 for (quotient, remainder) pairs, evaluated as the code's Time.__sub__ does"""
    return (t1[0] - t0[0]) + (t1[1] - t0[1])


def tless(a, b):
    return a[0] < b[0] or (a[0] == b[0] and a[1] < b[1])


class HistoryMonitor(Monitor):
    def __init__(self, max_verdicts_per_signature=3):
        self.verdicts = []
        self._per_sig = Counter()
        self.max_per_sig = max_verdicts_per_signature
        self.stats = Counter()
        self.committed_classes = Counter()
        self.cand_time = {}
        self.in_snap = {}
        self.pushed_at = {}
        self.pending = {}
        self.activation = {}
        self.last_commit_time = None
        self.last_after = None
        self.last_handler = None
        self.samples = []
        self.end_commit = None
        self.eoc_count = 0
        self.started = False
        self.active_cells = {}
        self.prev_active_ids = None

    # ------------------------------------------------------------------------------------------------ helpers
    def verdict(self, prop, signature, message, ctx):
        self._per_sig[(prop, signature)] += 1
        if self._per_sig[(prop, signature)] <= self.max_per_sig:
            self.verdicts.append({"prop": prop, "signature": signature, "message": message,
                                  "event": ctx.commits if ctx is not None else None})

    def on_built(self, ctx):
        import jellyfysh.setting as setting
        from jellyfysh.setting import hypercuboid_setting
        self.dim = setting.dimension
        self.lengths = list(hypercuboid_setting.system_lengths)
        self.lmax = max(self.lengths)
        self.structure0 = {}
        snap = ctx.global_snapshot(self.structure0)
        self.ids = set(snap)
        self.leaves = {i for i, s in self.structure0.items() if not s[1]}
        self.roots = [i for i in self.structure0 if len(i) == 1]
        self.speed = None
        for section in ctx.config.sections():
            if ctx.config.has_option(section, "speed") and "StartOfRun" in section:
                self.speed = float(ctx.config.get(section, "speed"))
        self._classify_handlers(ctx)
        self._find_cell_systems(ctx)
        self._sampling_setup(ctx)
        self._activation_setup(ctx)
        self.check_composites(ctx, snap, (0.0, 0.0), "initial state")
        self.check_box(ctx, snap)

    def _activation_setup(self, ctx):
        """Harness-side model of which taggers are activated (C09): every tagger starts activated; after an event of
        tagger T the tags in T's `activate` list are activated, then those in its `deactivate` list deactivated (lists
        read from the configuration text).  The generator a tagger had right after construction - before anything
        was deactivated - is kept as the "from scratch" generator, so that the oracle does not depend on the
        activate()/deactivate() bookkeeping under test."""
        self.tag_active = {}
        self.tag_lists = {}
        self.fresh_gen = {}
        sections = {}
        for section in ctx.config.sections():
            sections[section.lower().replace("_", "")] = section
        for tagger in ctx.taggers:
            self.tag_active[tagger.tag] = True
            self.fresh_gen[id(tagger)] = tagger.yield_identifiers_send_event_time
            section = sections.get(tagger.tag.lower().replace("_", ""))
            lists = ([], [])
            if section is not None:
                def read(option):
                    if not ctx.config.has_option(section, option):
                        return []
                    return [x.strip() for x in ctx.config.get(section, option).replace("\n", " ").split(",")
                            if x.strip()]
                lists = (read("activate"), read("deactivate"))
            self.tag_lists[tagger.tag] = lists
        for tagger in ctx.taggers:
            if any(self.kind.get(id(h)) == "start_of_run" for h in tagger.get_event_handlers()):
                self._apply_activation(tagger.tag)       # applied before the first leg of the run

    def _apply_activation(self, tag):
        on, off = self.tag_lists.get(tag, ([], []))
        for t in on:
            if t in self.tag_active:
                self.tag_active[t] = True
        for t in off:
            if t in self.tag_active:
                self.tag_active[t] = False

    def _classify_handlers(self, ctx):
        from jellyfysh.event_handler.abstracts.abstracts import SingleActiveLeafUnitEventHandler
        from jellyfysh.event_handler.abstracts.composite_objects import CompositeObjectsEventHandler
        from jellyfysh.event_handler.abstracts import (EndOfChainEventHandler, EndOfRunEventHandler,
                                                       SamplingEventHandler, StartOfRunEventHandler)
        from jellyfysh.event_handler.cell_boundary_event_handler import CellBoundaryEventHandler
        from jellyfysh.event_handler.root_leaf_unit_active_switcher import RootLeafUnitActiveSwitcher
        self.kind = {}
        for h in ctx.handlers:
            if isinstance(h, (SingleActiveLeafUnitEventHandler, CompositeObjectsEventHandler)):
                k = "interaction"
            elif isinstance(h, EndOfChainEventHandler):
                k = "end_of_chain"
            elif isinstance(h, EndOfRunEventHandler):
                k = "end_of_run"
            elif isinstance(h, SamplingEventHandler):
                k = "sampling"
            elif isinstance(h, StartOfRunEventHandler):
                k = "start_of_run"
            elif h.__class__.__name__.endswith("DumpingEventHandler"):
                k = "dumping"
            elif isinstance(h, CellBoundaryEventHandler):
                k = "cell_boundary"
            elif isinstance(h, RootLeafUnitActiveSwitcher):
                k = "switch"
            else:
                k = "other"
            self.kind[id(h)] = k

    def _find_cell_systems(self, ctx):
        from jellyfysh.activator.internal_state.cell_occupancy import CellOccupancy
        from jellyfysh.base.factory import get_alias
        self.cell_systems = []
        for st in ctx.internal_states:
            if not isinstance(st, CellOccupancy):
                continue
            section = get_alias(st.__class__.__name__)
            cfg = ctx.config[section] if ctx.config.has_section(section) else {}
            self.cell_systems.append({
                "state": st, "section": section, "level": int(cfg.get("cell_level", st.cell_level)),
                "charge": cfg.get("charge", None), "cap": int(cfg.get("maximum_number_occupants", 1))})

    def _sampling_setup(self, ctx):
        self.sampling = {}
        self.end_time = None
        for h in ctx.handlers:
            k = self.kind[id(h)]
            if k == "sampling":
                # parameters from the configuration (the handler's own attributes are not trusted)
                for section in ctx.config.sections():
                    if ctx.config.has_option(section, "sampling_interval"):
                        sec = ctx.config[section]
                        if sec.get("output_handler") == h.output_handler:
                            self.sampling[id(h)] = {
                                "interval": float(sec["sampling_interval"]),
                                "zero": sec.get("first_event_time_zero", "false").lower() in ("1", "yes", "true", "on"),
                                "count": 0, "output": h.output_handler}
            if k == "dumping":
                for section in ctx.config.sections():
                    if ctx.config.has_option(section, "dumping_interval"):
                        sec = ctx.config[section]
                        if sec.get("output_handler") == h.output_handler:
                            self.sampling[id(h)] = {"interval": float(sec["dumping_interval"]), "zero": False,
                                                    "count": 0, "output": h.output_handler, "dump": True}
            if k == "end_of_run":
                for section in ctx.config.sections():
                    if ctx.config.has_option(section, "end_of_run_time"):
                        self.end_time = float(ctx.config.get(section, "end_of_run_time"))
                        self.end_output = ctx.config[section].get("output_handler", None)

    def congruent(self, a, b, axis, tol):
        L = self.lengths[axis]
        d = a - b
        d -= L * round(d / L)
        return abs(d) <= tol

    @staticmethod
    def pos_at(unit, t):
        p, v, ts = unit
        if v is None or ts is None:
            return list(p)
        dt = tdiff(t, ts)
        return [p[i] + v[i] * dt for i in range(len(p))]

    # ------------------------------------------------------------------------------------------------ seams
    def on_activate(self, ctx, mapping, active_snapshot):
        for h, ids in mapping.items():
            self.activation[id(h)] = ids
        # the occupancy has just been updated for this leg: check it before any handler consumes it
        if ctx.commits >= 1:
            self.check_occupancy(ctx)
            self._occupancy_checked_at = ctx.commits

    def on_send_event_time(self, ctx, handler, in_state_snapshot, time, extra):
        self.in_snap[id(handler)] = in_state_snapshot
        self.pushed_at[id(handler)] = ctx.commits

    def on_push(self, ctx, time, handler):
        self.cand_time[id(handler)] = tt(time)
        if id(handler) in self.pending:
            self.verdict("C09", "double-push", "handler %s pushed while its previous event is still pending"
                         % handler.__class__.__name__, ctx)
        self.pending[id(handler)] = handler

    def on_trash(self, ctx, handler):
        self.pending.pop(id(handler), None)

    def on_before_get(self, ctx):
        if ctx.commits >= 1:
            self.check_pending(ctx)
            self.check_pending_fresh(ctx)
            self._gets = getattr(self, "_gets", 0) + 1
            # every 4th get; every 32nd once the scheduler holds many (mostly stale) entries - reading them is O(n)
            if self._gets % (4 if getattr(self, "_scheduler_size", 0) < 300 else 32) == 1:
                self.check_scheduler_contents(ctx)
            if getattr(self, "_occupancy_checked_at", None) != ctx.commits:
                self.check_occupancy(ctx)

    def on_get(self, ctx, handler):
        # C08, second sentence: the entry the scheduler hands out must be the handler's current candidate; an entry with
        # another time is a candidate that survived although it had been trashed or superseded
        t = getattr(ctx, "last_returned_time", None)
        want = self.cand_time.get(id(handler))
        if t is not None and want is not None and t != want and self.kind.get(id(handler)) == "interaction":
            self.verdict("C08", "stale-candidate-returned", "the scheduler returned an event of %s at %r, but the "
                         "handler's current candidate is at %r: a trashed or superseded candidate survived"
                         % (handler.__class__.__name__, t, want), ctx)

    def on_commit(self, ctx, handler, before, after, out_ids):
        t = self.cand_time.get(id(handler))
        kind = self.kind.get(id(handler), "other")
        self.committed_classes[handler.__class__.__name__.split(" ")[0]] += 1
        self.stats["commits"] += 1
        self.stats["commit/" + kind] += 1
        tg = ctx.tagger_of.get(id(handler))
        if tg is not None:
            self._apply_activation(tg.tag)
        if kind == "end_of_chain":
            self.eoc_count += 1
        # C13 (run part): nothing changed the global state between two commits
        if self.last_after is not None and self.last_after != before:
            diff = [i for i in before if before[i] != self.last_after.get(i)]
            self.verdict("C13", "state-changed-between-commits", "global state of units %r changed between commit %d "
                         "and the next insert" % (diff[:4], ctx.commits - 1), ctx)
        if t is None:
            self.verdict("C07", "no-candidate-time", "handler %s committed without a pushed candidate time"
                         % handler.__class__.__name__, ctx)
            t = self.last_commit_time or (0.0, 0.0)
        # C07 (i) monotone time
        if self.last_commit_time is not None and tless(t, self.last_commit_time):
            self.verdict("C07", "time-decreases", "event of %s at %r committed after an event at %r"
                         % (handler.__class__.__name__, t, self.last_commit_time), ctx)
        self.check_continuity(ctx, handler, before, after, t)
        if kind == "start_of_run":
            self.started = True
        if self.started:
            self.check_chain(ctx, after, handler)
        self.check_box(ctx, after)
        if set(after) != self.ids:
            self.verdict("C07", "identities-changed", "set of unit identifiers changed", ctx)
        if ctx.commits % 64 == 1:
            structure = {}
            ctx.global_snapshot(structure)
            if structure != self.structure0:
                self.verdict("C07", "identities-changed", "tree structure, weights or charges changed", ctx)
        # C08
        if kind == "interaction":
            self.check_fresh(ctx, handler, before)
        # C12
        self.check_composites(ctx, after, t, handler.__class__.__name__)
        # C11 (commit part)
        self.check_active_cell_at_commit(ctx, handler, before, after, t, kind)
        # C17: end of run
        if kind == "end_of_run":
            self.end_commit = (ctx.commits, t)
        self.track_nontriviality(ctx, before, after, kind)
        self.last_commit_time = t
        self.last_after = after
        self.last_handler = handler

    # ------------------------------------------------------------------------------------------------ C07
    def check_continuity(self, ctx, handler, before, after, t):
        name = handler.__class__.__name__
        for uid, ub in before.items():
            ua = after.get(uid)
            if ua is None:
                continue
            if ub == ua:
                continue
            pb, vb, tsb = ub
            pa, va, tsa = ua
            if any(math.isnan(x) for x in pa) or (va is not None and any(math.isnan(x) for x in va)):
                self.verdict("C07", "nan-in-state", "%s committed NaN for unit %r" % (name, uid), ctx)
                continue
            if vb is None and va is None:
                if pb != pa:
                    self.verdict("C07", "resting-unit-moved", "%s moved resting unit %r from %r to %r"
                                 % (name, uid, pb, pa), ctx)
                continue
            if va is not None and tsa is None:
                self.verdict("C07", "moving-without-time-stamp", "%s: unit %r moves without a time stamp"
                             % (name, uid), ctx)
                continue
            xb = self.pos_at(ub, t)
            xa = self.pos_at(ua, t)
            for axis in range(self.dim):
                if not self.congruent(xa[axis], xb[axis], axis, 1e-9 * self.lengths[axis]):
                    self.verdict("C07", "discontinuous", "%s: unit %r jumps at the event time %r: trajectory before "
                                 "gives %r, after %r (axis %d)" % (name, uid, t, xb[axis], xa[axis], axis), ctx)
                    break

    def check_chain(self, ctx, after, handler):
        moving = [i for i in self.leaves if after[i][1] is not None]
        name = handler.__class__.__name__
        if not moving:
            self.verdict("C07", "no-chain", "after %s no point mass moves" % name, ctx)
            return
        v0 = after[moving[0]][1]
        for i in moving[1:]:
            v = after[i][1]
            if any(abs(a - b) > 1e-12 * (abs(a) + abs(b) + 1e-300) for a, b in zip(v, v0)):
                self.verdict("C07", "two-velocities", "after %s moving point masses %r and %r carry different "
                             "velocities %r, %r" % (name, moving[0], i, v0, v), ctx)
                return
        if self.speed is not None:
            norm = math.sqrt(sum(x * x for x in v0))
            if abs(norm - self.speed) > 1e-9 * (1 + self.eoc_count) * self.speed:
                self.verdict("C07", "speed-changed", "after %s the chain moves with speed %r, configured %r"
                             % (name, norm, self.speed), ctx)
        if len(moving) > 1:
            roots = {i[:1] for i in moving}
            if len(roots) != 1:
                self.verdict("C07", "two-chains", "after %s point masses of different objects move: %r"
                             % (name, sorted(moving)), ctx)
            else:
                root = next(iter(roots))
                all_leaves = {i for i in self.leaves if i[:1] == root}
                if set(moving) != all_leaves:
                    self.verdict("C07", "partial-object-moves", "after %s only %r of object %r move"
                                 % (name, sorted(moving), root), ctx)

    def check_box(self, ctx, snap):
        for uid, (p, v, ts) in snap.items():
            for axis in range(self.dim):
                if not (0.0 <= p[axis] < self.lengths[axis]):
                    self.verdict("C07", "outside-box", "unit %r has coordinate %r outside [0, %r)"
                                 % (uid, p[axis], self.lengths[axis]), ctx)
                    return

    # ------------------------------------------------------------------------------------------------ C08
    def check_fresh(self, ctx, handler, before):
        snap = self.in_snap.get(id(handler))
        name = handler.__class__.__name__
        if snap is None:
            return
        age = ctx.commits - 1 - self.pushed_at.get(id(handler), ctx.commits - 1)
        self.stats["interaction_commits"] += 1
        if age >= 2:
            self.stats["interaction_commits_age>=2"] += 1
        stale = self.compare_with_in_state(snap, before)
        if stale is not None:
            self.verdict("C08", stale[0], "%s committed an event computed %d commits ago: %s" % (name, age, stale[1]),
                         ctx)

    def compare_with_in_state(self, snap, current):
        """None if every unit of the in-state snapshot still has the same velocity and lies on the same straight line
        (same position if resting) in `current`; otherwise (signature, description)."""
        for uid, (p, v, ts) in snap.items():
            g = current.get(uid)
            if g is None:
                continue
            pg, vg, tsg = g
            if vg != v:
                return "stale-velocity", "unit %r had velocity %r then, %r now" % (uid, v, vg)
            if v is None:
                if pg != p:
                    return "stale-position", "resting unit %r was at %r when the candidate was computed, now at %r" % (
                        uid, p, pg)
            else:
                x = self.pos_at((p, v, ts), tsg)
                for axis in range(self.dim):
                    if not self.congruent(x[axis], pg[axis], axis, 1e-9 * self.lengths[axis]):
                        return "stale-trajectory", "moving unit %r left the trajectory the candidate was computed " \
                                                   "from" % (uid,)
        return None

    def check_scheduler_contents(self, ctx):
        """C08, second sentence, at the scheduler itself: the finite events that are alive in the scheduler (list
        entries; heap entries whose counter is the handler's current validity counter) are exactly the pushed and not
        trashed candidates the harness recorded at the push/trash seams - a candidate whose trash the scheduler
        swallowed survives there without ever having to be returned.  Private reads: ListScheduler._times,
        HeapScheduler.__getstate__()/_minimal_valid_counter."""
        sched = ctx.scheduler
        alive = Counter()
        name = sched.__class__.__name__
        if hasattr(sched, "_times"):
            for element in sched._times:
                t = tt(element.time)
                if not math.isinf(t[0]):
                    alive[(id(element.event_handler), t)] += 1
        elif hasattr(sched, "_minimal_valid_counter"):
            entries = sched.__getstate__()["heap_entries"]
            self._scheduler_size = len(entries)
            for q, r, handler, counter in entries:
                if counter == sched._minimal_valid_counter.get(handler, 0):
                    alive[(id(handler), (q, r))] += 1
        else:
            return
        expected = Counter()
        for hid in self.pending:
            t = self.cand_time.get(hid)
            if t is not None and not math.isinf(t[0]):
                expected[(hid, t)] += 1
        self.stats["scheduler_inspections"] += 1
        if alive != expected:
            survivors = list((alive - expected).elements())[:3]
            lost = list((expected - alive).elements())[:3]
            names = {id(h): h.__class__.__name__ for h in ctx.handlers}
            self.verdict("C08", "scheduler-contents", "%s holds live events that were trashed or never pushed: %r; "
                         "pushed events it no longer holds: %r" % (
                             name, [(names.get(h, "?"), t) for h, t in survivors],
                             [(names.get(h, "?"), t) for h, t in lost]), ctx)

    def check_pending_fresh(self, ctx):
        """C08, second sentence: no candidate of an interaction or cell-veto handler survives in the scheduler after
        another event changed the motion of a unit it depends on.  Looked at when the mediator asks the scheduler for
        the next event, i.e. after the trashes and creations of the last committed event."""
        current = getattr(self, "last_after", None)
        if current is None:
            return
        for hid, h in self.pending.items():
            if self.kind.get(hid) != "interaction":
                continue
            snap = self.in_snap.get(hid)
            if snap is None:
                continue
            self.stats["pending_candidates_checked"] += 1
            stale = self.compare_with_in_state(snap, current)
            if stale is not None:
                self.verdict("C08", "pending-" + stale[0], "a candidate of %s computed %d commits ago is still pending "
                             "in the scheduler although %s" % (h.__class__.__name__,
                                                               ctx.commits - self.pushed_at.get(hid, ctx.commits),
                                                               stale[1]), ctx)
                return

    # ------------------------------------------------------------------------------------------------ C09
    def check_pending(self, ctx):
        from jellyfysh.activator.tagger.no_in_state_tagger import NoInStateTagger
        from jellyfysh.activator.tagger.active_global_state_in_state_tagger import ActiveGlobalStateInStateTagger
        from jellyfysh.activator.tagger.active_root_unit_in_state_tagger import ActiveRootUnitInStateTagger
        active = ctx.state_handler.extract_active_global_state()
        by_tagger = {}
        for hid, h in self.pending.items():
            by_tagger.setdefault(id(ctx.tagger_of[id(h)]), []).append(self.activation.get(hid))
        self.stats["pending_observations"] += 1
        for tagger in ctx.taggers:
            handlers = tagger.get_event_handlers()
            if any(self.kind.get(id(h)) == "start_of_run" for h in handlers):
                continue
            if self.tag_active.get(tagger.tag, True):
                fresh = list(self.fresh_gen[id(tagger)](active))
            else:
                fresh = []
                self.stats["deactivated_tagger_observations"] += 1
            have = by_tagger.get(id(tagger), [])
            if isinstance(tagger, (NoInStateTagger, ActiveGlobalStateInStateTagger, ActiveRootUnitInStateTagger)):
                if len(fresh) != len(have):
                    self.verdict("C09", "count-mismatch/%s" % tagger.tag, "tagger %s has %d pending events, a fresh "
                                 "start from the current state creates %d" % (tagger.tag, len(have), len(fresh)), ctx)
            else:
                a = Counter(tuple(x) if x is not None else None for x in fresh)
                b = Counter(tuple(x) if x is not None else None for x in have)
                if a != b:
                    missing = list((a - b).elements())[:3]
                    extra = list((b - a).elements())[:3]
                    self.verdict("C09", "pending-mismatch/%s" % tagger.tag, "tagger %s: pending in-states differ from a "
                                 "fresh start: missing %r, stale/duplicated %r" % (tagger.tag, missing, extra), ctx)
            if len(have) > len(handlers):
                self.verdict("C09", "more-than-owned/%s" % tagger.tag, "tagger %s runs %d handlers but owns %d"
                             % (tagger.tag, len(have), len(handlers)), ctx)

    # ------------------------------------------------------------------------------------------------ C11
    def relevant_units(self, cs, snap):
        out = []
        for uid in snap:
            if len(uid) != cs["level"]:
                continue
            if cs["charge"] is not None:
                ch = dict(self.structure0[uid][2] or ())
                if ch.get(cs["charge"], 0) == 0:
                    continue
            out.append(uid)
        return out

    def check_occupancy(self, ctx):
        if not self.cell_systems:
            return
        snap = ctx.global_snapshot()
        for cs in self.cell_systems:
            st = cs["state"]
            cells = st.cells
            self.stats["occupancy_observations"] += 1
            seen = Counter()
            where = {}
            for cell in cells.yield_cells():
                occ = list(st[cell])
                if cs["cap"] > 0 and len(occ) > cs["cap"]:
                    self.verdict("C11", "over-capacity", "%s: cell %r lists %d occupants, limit %d"
                                 % (cs["section"], cell.identifier, len(occ), cs["cap"]), ctx)
                for uid in occ:
                    seen[uid] += 1
                    where[uid] = cell
            surplus = list(st.yield_surplus())
            for uid in surplus:
                seen[uid] += 1
            if surplus:
                self.stats["occupancy_with_surplus"] += 1
            active = list(st.yield_active_cells())
            active_ids = {a[1] for a in active}
            relevant = self.relevant_units(cs, snap)
            # which relevant unit is the active one on this level (moving)?
            moving = [u for u in relevant if snap[u][1] is not None]
            for uid in relevant:
                if uid in active_ids:
                    if seen[uid]:
                        self.verdict("C11", "active-also-listed", "%s: active unit %r also appears in an occupant or "
                                     "surplus list" % (cs["section"], uid), ctx)
                    continue
                if seen[uid] != 1:
                    self.verdict("C11", "not-exactly-once", "%s: unit %r is recorded %d times (moving units on this "
                                 "level: %r, active: %r)" % (cs["section"], uid, seen[uid], moving,
                                                             sorted(active_ids)), ctx)
                    continue
                if uid in where:
                    real = cells.position_to_cell(list(snap[uid][0]))
                    if real is not where[uid]:
                        self.verdict("C11", "wrong-cell", "%s: unit %r at %r is listed in cell %r but lies in cell %r"
                                     % (cs["section"], uid, snap[uid][0], where[uid].identifier, real.identifier), ctx)
            for uid in seen:
                if uid not in relevant:
                    self.verdict("C11", "irrelevant-listed", "%s: unit %r is listed but not relevant"
                                 % (cs["section"], uid), ctx)
            for uid in moving:
                if uid not in active_ids:
                    self.verdict("C11", "active-not-recorded", "%s: moving unit %r is not the recorded active unit %r"
                                 % (cs["section"], uid, sorted(active_ids)), ctx)
            for cell, uid in active:
                if uid not in snap or len(uid) != cs["level"]:
                    self.verdict("C11", "active-unknown", "%s: recorded active unit %r unknown" % (cs["section"], uid),
                                 ctx)
                    continue
                real = cells.position_to_cell(list(snap[uid][0]))
                if real is not cell:
                    self.verdict("C11", "active-wrong-cell", "%s: active unit %r at %r recorded in cell %r, lies in %r"
                                 % (cs["section"], uid, snap[uid][0], cell.identifier, real.identifier), ctx)
            self.active_cells[id(st)] = active[0] if active else None

    def check_active_cell_at_commit(self, ctx, handler, before, after, t, kind):
        for cs in self.cell_systems:
            rec = self.active_cells.get(id(cs["state"]))
            if rec is None:
                continue
            cell, uid = rec
            ub = before.get(uid)
            if ub is None or ub[1] is None:
                continue
            x = self.pos_at(ub, t)
            v = ub[1]
            for axis in range(self.dim):
                L = self.lengths[axis]
                lo, hi = cell.cell_min[axis], cell.cell_max[axis]
                slack = 4 * math.ulp(L) + 8 * EPS * abs(v[axis]) * max(1.0, abs(tdiff(t, ub[2])))
                xi = x[axis]
                inside = (lo - slack <= xi <= hi + slack)
                if not inside:
                    # the far face of the last cell is the periodic image of 0
                    xm = xi - L if xi >= L else (xi + L if xi < 0 else xi)
                    inside = (lo - slack <= xm <= hi + slack) or abs(xi - (hi + math.ulp(hi))) <= slack
                if not inside:
                    self.verdict("C11", "left-cell-without-boundary-event", "%s: at the event of %s (t=%r) the active "
                                 "unit %r is at %r on axis %d, outside its recorded cell [%r, %r]"
                                 % (cs["section"], handler.__class__.__name__, t, uid, xi, axis, lo, hi), ctx)
                    break
            if kind == "cell_boundary":
                ua = after.get(uid)
                if ua is not None and ua[1] is not None:
                    self.stats["cell_crossings"] += 1
                    new_cell = cs["state"].cells.position_to_cell(list(ua[0]))
                    axis = [i for i, c in enumerate(ua[1]) if c != 0.0]
                    # only axis-parallel positive motion has a unique "direction of motion" neighbour
                    if len(axis) == 1 and self.tagger_handles(ctx, handler, cs):
                        want = cs["state"].cells.neighbor_cell(cell, axis[0], ua[1][axis[0]] > 0)
                        if new_cell is not want:
                            self.verdict("C11", "boundary-event-wrong-cell", "%s: after the cell-boundary event the "
                                         "active unit %r is in cell %r, expected the neighbour %r of %r"
                                         % (cs["section"], uid, new_cell.identifier,
                                            want.identifier if want is not None else None, cell.identifier), ctx)
                        if tuple(new_cell.identifier[a] for a in range(self.dim) if a != axis[0]) != tuple(
                                cell.identifier[a] for a in range(self.dim) if a != axis[0]):
                            pass
                        if any(new_cell.identifier[a] in (0,) and cell.identifier[a] != 0 and a == axis[0]
                               for a in range(self.dim)):
                            self.stats["cell_crossings_periodic"] += 1

    def tagger_handles(self, ctx, handler, cs):
        tagger = ctx.tagger_of.get(id(handler))
        return getattr(tagger, "internal_state", None) is cs["state"]

    # ------------------------------------------------------------------------------------------------ C12
    def check_composites(self, ctx, snap, t, what):
        for root in self.roots:
            children = self.structure0[root][1]
            if not children:
                continue
            pr, vr, tsr = snap[root]
            moving = [c for c in children if snap[c][1] is not None]
            expect_v = None
            if moving:
                expect_v = [0.0] * self.dim
                for c in children:
                    vc = snap[c][1]
                    if vc is not None:
                        w = self.structure0[c][0]
                        for i in range(self.dim):
                            expect_v[i] += w * vc[i]
            self.stats["composite_checks"] += 1
            scale = self.speed or 1.0
            if (vr is None) != (expect_v is None):
                self.verdict("C12", "root-velocity-presence", "%s: object %r stores velocity %r but its moving point "
                             "masses are %r" % (what, root, vr, moving), ctx)
                continue
            if vr is not None:
                if any(abs(a - b) > 1e-12 * scale for a, b in zip(vr, expect_v)):
                    self.verdict("C12", "root-velocity", "%s: object %r stores velocity %r, weighted sum of its point "
                                 "masses is %r" % (what, root, vr, expect_v), ctx)
                    continue
            xr = self.pos_at(snap[root], t)
            # nearest images of the point masses with respect to each other (anchored at the first one), not with
            # respect to the stored root position: a root misplaced by L/2 would otherwise fold both members of a
            # dipole to opposite sides of itself and look centred
            bary = [0.0] * self.dim
            x0 = self.pos_at(snap[children[0]], t)
            ambiguous = False
            for c in children:
                xc = self.pos_at(snap[c], t)
                w = self.structure0[c][0]
                for i in range(self.dim):
                    L = self.lengths[i]
                    d = xc[i] - x0[i]
                    d -= L * round(d / L)
                    if abs(d) > 0.45 * L:
                        ambiguous = True
                    bary[i] += w * d
            if ambiguous:     # object as long as half the box: "nearest image" is not defined
                self.stats["composite_ambiguous"] = self.stats.get("composite_ambiguous", 0) + 1
                continue
            for i in range(self.dim):
                L = self.lengths[i]
                d = x0[i] + bary[i] - xr[i]
                bary[i] = d - L * round(d / L)
            for i in range(self.dim):
                if abs(bary[i]) > 1e-8 * self.lengths[i]:
                    self.verdict("C12", "barycentre", "%s: object %r at %r is displaced by %r from the weighted "
                                 "barycentre of its point masses (axis %d, time %r)" % (what, root, xr[i], bary[i], i,
                                                                                       t), ctx)
                    break

    # ------------------------------------------------------------------------------------------------ C17
    def on_write(self, ctx, name, args):
        h = self.last_handler
        if h is None:
            return
        info = self.sampling.get(id(h))
        t = self.last_commit_time
        if info is not None and info["output"] == name and self.kind.get(id(h)) in ("sampling", "dumping"):
            k = info["count"] + (0 if info["zero"] else 1)
            info["count"] += 1
            nominal = k * info["interval"]
            got = t[0] + t[1]
            tol = (k + 1) * 2.0 ** -52 * (1.0 + info["interval"])
            if abs(tdiff(t, (math.floor(nominal), nominal - math.floor(nominal)))) > tol:
                self.verdict("C17", "sample-time", "sample %d of %s taken at %r (=%r), nominal %r" % (
                    info["count"], name, t, got, nominal), ctx)
            self.samples.append((name, k, t))
            if info.get("dump"):
                self.stats["dumps"] += 1
                return
            self.stats["samples"] += 1
            self.check_written_state(ctx, args, t, name)
        elif self.kind.get(id(h)) == "end_of_run":
            self.check_written_state(ctx, args, t, name)
        elif info is not None and self.kind.get(id(h)) in ("sampling", "dumping"):
            self.verdict("C17", "written-to-wrong-output", "the event of the handler connected to output handler %r at "
                         "%r was written to output handler %r" % (info["output"], t, name), ctx)

    def check_written_state(self, ctx, args, t, name):
        if not args or not isinstance(args[0], (list, tuple)):
            return
        snap = snapshot_tree(args[0])
        for uid, (p, v, ts) in snap.items():
            if v is not None and ts != t:
                self.verdict("C17", "not-time-sliced", "state written to %s at %r contains moving unit %r with time "
                             "stamp %r" % (name, t, uid, ts), ctx)
                return

    TRUE_BOUND_HANDLERS = ("TwoLeafUnitBoundingPotentialEventHandler",
                           "TwoCompositeObjectSummedBoundingPotentialEventHandler",
                           "RootUnitActiveTwoCompositeObjectSummedBoundingPotentialEventHandler")

    def check_warnings(self, ctx):
        """C04 (c): the code's own bounding_potential_warning must never fire for handlers whose bounding potential is
        the 1/r bound that is claimed to be a true bound (estimator-based cell bounds are heuristic and excluded)."""
        uses_true_bound = any("inverse_power_coulomb_bounding_potential" in (ctx.config.get(sec, "bounding_potential",
                                                                                         fallback="") or "")
                              for sec in ctx.config.sections())
        self.stats["bounded_confirmations_possible"] += 1 if uses_true_bound else 0
        for msg in ctx.warnings:
            if "bounding event rate" in msg and "is not bigger than the real event rate" in msg:
                name = msg.split("In the event handler ")[-1].split(" ")[0]
                base = name.split("(")[-1].rstrip(")") if "(" in msg.split(" the bounding")[0] else name
                full = msg.split("In the event handler ")[-1].split(" the bounding event rate")[0]
                if any(h in full for h in self.TRUE_BOUND_HANDLERS) and uses_true_bound:
                    self.verdict("C04", "warning-in-run", msg, ctx)

    def on_end(self, ctx, reason):
        self.reason = reason
        self.check_warnings(ctx)
        if reason != "end_of_run":
            return
        if self.end_commit is None or self.end_commit[0] != ctx.commits:
            self.verdict("C17", "end-not-last", "the run ended without the end-of-run event being the last commit", ctx)
            return
        if self.end_time is not None:
            q = math.floor(self.end_time)
            if self.end_commit[1] != (float(q), self.end_time - q):
                self.verdict("C17", "end-time", "run ended at %r, configured %r" % (self.end_commit[1], self.end_time), ctx)
            for info in self.sampling.values():
                first = 0 if info["zero"] else 1
                if info.get("dump"):
                    # the dumping event at a nominal time may be trashed by the end of run; one fewer is allowed
                    pass
                # number of nominal sampling times strictly before the end (a tie may go either way)
                n_lo = n_hi = 0
                k = first
                while k * info["interval"] < self.end_time * (1 + 1e-12) + 1e-12:
                    if k * info["interval"] < self.end_time * (1 - 1e-12) - 1e-12:
                        n_lo += 1
                    n_hi += 1
                    k += 1
                    if k > 10 ** 7:
                        break
                if not n_lo <= info["count"] <= n_hi:
                    self.verdict("C17", "sample-count", "%d samples written to %s, %d..%d nominal times lie before the "
                                 "end %r (interval %r)" % (info["count"], info["output"], n_lo, n_hi, self.end_time,
                                                           info["interval"]), ctx)

    # ------------------------------------------------------------------------------------------------ bookkeeping
    def track_nontriviality(self, ctx, before, after, kind):
        moving = tuple(sorted(i for i in self.leaves if after[i][1] is not None))
        if self.prev_active_ids is not None and moving != self.prev_active_ids:
            self.stats["active_unit_changes"] += 1
            if kind == "interaction":
                self.stats["liftings"] += 1
        self.prev_active_ids = moving

    def by_property(self, prop):
        return [v for v in self.verdicts if v["prop"] == prop]
