"""Drop-in replacement for a module's `random` attribute with scripted draws.

`with scripted(module, uniforms=[...], expos=[...], choices=[...]) as s:` replaces `module.random` for the duration
and verifies that exactly the scripted number of draws was consumed when `strict` is set."""
import contextlib

from .build import HarnessError


class Scripted(object):
    def __init__(self, uniforms=(), expos=(), choices=(), randints=(), strict=True):
        self.uniforms = list(uniforms)
        self.expos = list(expos)
        self.choices = list(choices)
        self.randints = list(randints)
        self.strict = strict
        self.log = []

    def _pop(self, lst, what):
        if not lst:
            raise HarnessError("scripted random: unanticipated %s draw (log: %r)" % (what, self.log[-5:]))
        return lst.pop(0)

    def uniform(self, a, b):
        u = self._pop(self.uniforms, "uniform")
        self.log.append(("uniform", a, b, u))
        return a + (b - a) * u

    def random(self):
        u = self._pop(self.uniforms, "random")
        self.log.append(("random", u))
        return u

    def expovariate(self, lambd):
        e = self._pop(self.expos, "expovariate")
        self.log.append(("expovariate", lambd, e))
        return e / lambd

    def choice(self, seq):
        i = self._pop(self.choices, "choice")
        self.log.append(("choice", len(seq), i))
        return seq[i % len(seq)]

    def randint(self, a, b):
        i = self._pop(self.randints, "randint")
        self.log.append(("randint", a, b, i))
        return a + i % (b - a + 1)

    def randrange(self, n):
        i = self._pop(self.randints, "randrange")
        self.log.append(("randrange", n, i))
        return i % n

    def leftover(self):
        return len(self.uniforms) + len(self.expos) + len(self.choices) + len(self.randints)


@contextlib.contextmanager
def scripted(module, **kw):
    s = Scripted(**kw)
    old = module.random
    module.random = s
    try:
        yield s
    finally:
        module.random = old


def bisect_steps(f, lo=0.0, hi=1.0, max_steps=64):
    """Break points of a step function f on [lo, hi] (f(lo), f(hi) evaluated by the caller through f).

    Returns a list of (left, right, value_left, value_right) with right the float next to left (or within 2^-60),
    found by recursive bisection wherever the values at the interval ends differ.  A non-monotone function with an
    even number of steps between two probes is invisible to bisection; callers add interior probes."""
    out = []
    stack = [(lo, f(lo), hi, f(hi))]
    evals = 2
    while stack:
        a, fa, b, fb = stack.pop()
        if fa == fb:
            continue
        m = a + (b - a) / 2.0
        if m <= a or m >= b:
            out.append((a, b, fa, fb))
            continue
        fm = f(m)
        evals += 1
        stack.append((m, fm, b, fb))
        stack.append((a, fa, m, fm))
    out.sort()
    return out, evals
