"""Runner: seeds, tiers, sharding, evidence files, VIOLATION / KNOWN-FINDING lines, replay.

A property module (vlib/props/Cxx.py) exposes

    PROPERTY = "Cxx"
    RULE     = "how cases are generated and what makes one non-trivial"
    ASSUMPTIONS = [...]
    CHECKS   = [Check(...), ...]

Each Check has a body  fn(rec, **args)  (args JSON-able) that raises `Violation` when the property fails on
that case, and a `strategies()` callable returning the keyword strategies for Hypothesis' @given.  Stateful or
otherwise special checks pass `custom=callable(rec, seed, n)` instead.
"""
import hashlib
import json
import math
import multiprocessing
import os
import sys
import time
import traceback
from collections import Counter

from . import build
from .build import HarnessError

VERIF = os.path.dirname(os.path.dirname(os.path.abspath(__file__)))
MAX_SAMPLES_PER_LABEL = 2


class Violation(Exception):
    def __init__(self, signature, message, args=None):
        super().__init__(message)
        self.signature = signature
        self.message = message
        self.args_dict = args


def jsonable(x):
    if isinstance(x, float):
        if math.isnan(x) or math.isinf(x):
            return repr(x)
        return x
    if isinstance(x, (int, str, bool)) or x is None:
        return x
    if isinstance(x, dict):
        return {str(k): jsonable(v) for k, v in x.items()}
    if isinstance(x, (list, tuple, set, frozenset)):
        return [jsonable(v) for v in x]
    return repr(x)


class Recorder(object):
    """Counts what a shard actually explored."""

    def __init__(self, known_signatures=()):
        self.evaluations = 0
        self.labels = Counter()
        self.nontrivial = set()
        self.samples = {}
        self.excluded = Counter()
        self.known_hits = {}
        self.known = set(known_signatures)
        self.violation = None
        self.extra = {}
        self.notes = []

    def case(self, label, key, nontrivial, sample=None):
        """Record one evaluated case.  `key` identifies the case (distinctness), `label` its class."""
        self.evaluations += 1
        self.labels[label] += 1
        if nontrivial:
            h = hashlib.blake2b(repr(key).encode(), digest_size=8).digest()
            self.nontrivial.add(h)
            bucket = self.samples.setdefault(label, [])
            if len(bucket) < MAX_SAMPLES_PER_LABEL and sample is not None:
                bucket.append(jsonable(sample))

    def exclude(self, cls, n=1):
        self.excluded[cls] += n

    def fail(self, signature, message, args):
        """Report a failure: a listed known finding is counted and the search goes on, anything else raises."""
        if signature in self.known:
            hit = self.known_hits.setdefault(signature, {"count": 0, "example": jsonable(args), "message": message})
            hit["count"] += 1
            return
        raise Violation(signature, message, args)

    def maximum(self, name, value, where=None):
        cur = self.extra.get(name)
        if cur is None or value > cur["value"]:
            self.extra[name] = {"value": value, "where": jsonable(where)}

    def export(self):
        return {"evaluations": self.evaluations, "labels": dict(self.labels), "nontrivial": self.nontrivial,
                "samples": self.samples, "excluded": dict(self.excluded), "known_hits": self.known_hits,
                "violation": self.violation, "extra": self.extra, "notes": self.notes}


class Check(object):
    def __init__(self, name, fn=None, strategies=None, quick=200, thorough=2000, quick_shards=4, thorough_shards=16,
                 custom=None, replay=None, shrink_quick=True):
        self.name = name
        self.fn = fn
        self.strategies = strategies
        self.quick = quick
        self.thorough = thorough
        self.quick_shards = quick_shards
        self.thorough_shards = thorough_shards
        self.custom = custom
        self.replay = replay
        self.shrink_quick = shrink_quick


def derive_seed(seed, *parts):
    h = hashlib.blake2b(("%d|" % seed + "|".join(str(p) for p in parts)).encode(), digest_size=8).digest()
    return int.from_bytes(h, "big") % (2 ** 62)


def in_repo_frame(tb):
    """Innermost traceback frame that belongs to the scratch copy of jellyfysh (or None)."""
    root = build.scratch_root()
    last = None
    for frame in traceback.extract_tb(tb):
        if root and os.path.realpath(frame.filename).startswith(os.path.realpath(root)):
            last = frame
    return last


def exception_signature(exc):
    frame = in_repo_frame(exc.__traceback__)
    if frame is None:
        return None
    rel = frame.filename.split("jellyfysh/", 1)[-1]
    return "exception:%s@%s:%s" % (type(exc).__name__, rel, frame.name)


def run_given(rec, seed, n, strategies, fn, shrink=True, check_name=""):
    """Run fn(rec, **drawn) under Hypothesis with a pinned seed.  Sets rec.violation on failure."""
    import hypothesis
    from hypothesis import HealthCheck, Phase, given, settings

    phases = [Phase.explicit, Phase.generate, Phase.target]
    if shrink:
        phases.append(Phase.shrink)

    last_args = {}
    shrink_budget = float(os.environ.get("VERIF_SHRINK_S") or (20 if os.environ.get("VERIF_TIER_ACTIVE") == "quick" else 120))
    try:  # Hypothesis' own cap on the shrink phase is 300 s; bring it down to the same budget (module constant)
        from hypothesis.internal.conjecture import engine as _engine
        _engine.MAX_SHRINKING_SECONDS = shrink_budget
    except Exception:
        pass
    fail_state = {"first": None, "failed": set(), "violation": None, "args": None}

    @hypothesis.seed(seed)
    @settings(max_examples=n, database=None, deadline=None, derandomize=False, report_multiple_bugs=False,
              suppress_health_check=list(HealthCheck), phases=phases, print_blob=False,
              verbosity=hypothesis.Verbosity.quiet)
    @given(**strategies)
    def test(**kw):
        # bounded shrinking: once the budget since the first failure is spent, only inputs already known to fail
        # are re-executed (Hypothesis replays its best failing example last); everything else returns at once
        if fail_state["first"] is not None and time.time() - fail_state["first"] > shrink_budget \
                and repr(kw) not in fail_state["failed"]:
            return
        last_args.clear()
        last_args.update(kw)
        try:
            fn(rec, **kw)
        except Violation as v:
            if fail_state["first"] is None:
                fail_state["first"] = time.time()
                fail_state["violation"], fail_state["args"] = v, dict(kw)
            fail_state["failed"].add(repr(kw))
            raise
        except HarnessError:
            raise
        except (hypothesis.errors.HypothesisException, KeyboardInterrupt):
            raise
        except BaseException as exc:  # exceptions escaping the code under test are bucketed, harness bugs are not
            if type(exc).__name__ in ("UnsatisfiedAssumption", "StopTest", "Frozen"):
                raise
            sig = exception_signature(exc)
            if sig is None:
                raise
            msg = "%s: %s" % (type(exc).__name__, exc)
            if sig in rec.known:
                rec.fail(sig, msg, kw)
                return
            v = Violation(sig, msg, dict(kw))
            if fail_state["first"] is None:
                fail_state["first"] = time.time()
                fail_state["violation"], fail_state["args"] = v, dict(kw)
            fail_state["failed"].add(repr(kw))
            raise v from exc

    try:
        test()
    except Violation as v:
        args = v.args_dict if v.args_dict is not None else dict(last_args)
        rec.violation = {"check": check_name, "signature": v.signature, "message": v.message,
                         "args": jsonable(args), "seed": seed}
    except BaseException as exc:
        # Hypothesis reports a failure that does not reproduce identically on its final replay as "flaky".  The code
        # under test is not a pure function of the drawn case where it iterates over sets of objects hashed by
        # address (cell systems): the failure that was observed is real and is reported with the first failing case.
        if fail_state["violation"] is not None and type(exc).__name__ in ("FlakyFailure", "Flaky", "ExceptionGroup",
                                                                           "FlakyReplay", "BaseExceptionGroup"):
            v = fail_state["violation"]
            args = v.args_dict if v.args_dict is not None else fail_state["args"]
            rec.violation = {"check": check_name, "signature": v.signature, "message": v.message,
                             "args": jsonable(args), "seed": seed, "note": "did not reproduce identically on replay"}
            rec.notes.append("a failure did not reproduce identically when Hypothesis replayed it (%s)"
                             % type(exc).__name__)
        else:
            raise


def _shard_job(job):
    prop_module, check_index, tier, seed, shard, known = job
    import importlib
    mod = importlib.import_module(prop_module)
    check = mod.CHECKS[check_index]
    rec = Recorder(known)
    n = check.quick if tier == "quick" else check.thorough
    sseed = derive_seed(seed, mod.PROPERTY, check.name, shard)
    t0 = time.time()
    try:
        if check.custom is not None:
            try:
                check.custom(rec, sseed, n, tier, shard)
            except Violation as v:
                rec.violation = {"check": check.name, "signature": v.signature, "message": v.message,
                                 "args": jsonable(v.args_dict), "seed": sseed}
        else:
            run_given(rec, sseed, n, check.strategies(), check.fn,
                      shrink=(tier == "thorough" or check.shrink_quick), check_name=check.name)
        if rec.violation is not None and not rec.violation.get("check"):
            rec.violation["check"] = check.name
    except Exception as exc:
        return {"harness_error": "%s/%s shard %d: %s\n%s" % (mod.PROPERTY, check.name, shard, exc,
                                                             traceback.format_exc())}
    out = rec.export()
    out["check"] = check.name
    out["wall"] = time.time() - t0
    return out


def _child_main(job, conn, crashfile):
    """Body of one worker process.  A fatal signal inside the code under test (a C extension writing out of bounds,
    an abort) leaves its Python stack in `crashfile`; the parent turns that into a verdict instead of hanging."""
    import faulthandler
    f = open(crashfile, "w")
    faulthandler.enable(file=f, all_threads=False)
    res = _shard_job(job)
    from . import cover
    cover.dump()
    conn.send(res)
    conn.close()


def _crash_result(job, exitcode, crashfile):
    """A worker died without a result.  If the recorded stack passes through the scratch copy of the package the code
    under test killed the interpreter: violation.  Otherwise (killed from outside, out of memory): harness error."""
    prop_module, check_index, tier, seed, shard, known = job
    import importlib
    mod = importlib.import_module(prop_module)
    check = mod.CHECKS[check_index]
    try:
        with open(crashfile) as f:
            trace = f.read()
    except OSError:
        trace = ""
    root = os.path.join(build.scratch_root(), "jellyfysh") + os.sep
    where = None
    for line in trace.splitlines():
        line = line.strip()
        if line.startswith('File "') and root in line:
            path = line.split('"')[1][len(root):]
            func = line.rsplit(" in ", 1)[-1] if " in " in line else "?"
            where = "%s:%s" % (path, func)
            break
    if where is None:
        return {"harness_error": "%s/%s shard %d: worker process died with exit code %r and no stack inside the code "
                                 "under test\n%s" % (mod.PROPERTY, check.name, shard, exitcode, trace[-1500:])}
    first = trace.strip().splitlines()[0] if trace.strip() else "exit code %r" % exitcode
    rec = Recorder(known)
    out = rec.export()
    out["check"] = check.name
    out["wall"] = 0.0
    out["violation"] = {"check": check.name, "signature": "crash:%s@%s" % (first.replace("Fatal Python error: ", ""),
                                                                           where),
                        "message": "the interpreter was killed inside the code under test (%s, exit code %r); Python "
                                   "stack at the time:\n%s" % (first, exitcode, trace[:1200]),
                        "args": {"rerun_shard": {"tier": tier, "seed": seed, "shard": shard}}, "seed": seed}
    return out


def run_jobs(job_list, jobs):
    """Run the shard jobs in forked processes, at most `jobs` at a time; survives workers that die."""
    import tempfile
    from multiprocessing import connection
    ctx = multiprocessing.get_context("fork")
    results = [None] * len(job_list)
    pending = list(range(len(job_list)))
    running = {}
    crashdir = tempfile.mkdtemp(prefix="jfcrash_")
    try:
        while pending or running:
            while pending and len(running) < jobs:
                i = pending.pop(0)
                parent, child = ctx.Pipe(duplex=False)
                crashfile = os.path.join(crashdir, "%d.txt" % i)
                proc = ctx.Process(target=_child_main, args=(job_list[i], child, crashfile))
                proc.start()
                child.close()
                running[parent] = (i, proc, crashfile)
            for conn in connection.wait(list(running)):
                i, proc, crashfile = running.pop(conn)
                try:
                    results[i] = conn.recv()
                    proc.join()
                except EOFError:
                    proc.join()
                    results[i] = _crash_result(job_list[i], proc.exitcode, crashfile)
                conn.close()
    finally:
        for conn, (i, proc, crashfile) in running.items():
            proc.kill()
        import shutil
        shutil.rmtree(crashdir, ignore_errors=True)
    return results


def load_known(prop):
    path = os.path.join(VERIF, "known_findings.json")
    if not os.path.exists(path):
        return []
    with open(path) as f:
        data = json.load(f)
    return [e for e in data.get("findings", []) if e.get("property") == prop and e.get("status") == "known"]


def write_evidence(prop, tier, seed, wall, merged, rule, assumptions, violations):
    edir = os.environ.get("VERIF_EVIDENCE_DIR") or os.path.join(VERIF, "evidence")
    os.makedirs(edir, exist_ok=True)
    samples = []
    for label, lst in sorted(merged["samples"].items()):
        for s in lst[:MAX_SAMPLES_PER_LABEL]:
            samples.append({"label": label, "case": s})
    samples = samples[:60]
    evidence = {
        "property_id": prop, "tier": tier, "seed": seed, "level": "exploration", "wall_s": round(wall, 2),
        "violations": violations, "assumptions": assumptions,
        "coverage": {
            "evaluations": merged["evaluations"],
            "distinct_nontrivial": len(merged["nontrivial"]),
            "rule": rule,
            "samples": samples,
            "labels": dict(sorted(merged["labels"].items())),
            "per_check": merged["per_check"],
            "excluded": merged["excluded"],
            "known_findings_hit": sorted(merged["known_hits"]),
            "extra": merged["extra"],
            "shards": merged["shards"],
            "notes": merged["notes"],
        },
    }
    path = os.path.join(edir, "%s.json" % prop)
    with open(path + ".tmp", "w") as f:
        json.dump(evidence, f, indent=1, sort_keys=True)
    os.replace(path + ".tmp", path)
    return path


def run_property(prop_module, tier, seed, only=None, jobs=16):
    import importlib
    mod = importlib.import_module(prop_module)
    prop = mod.PROPERTY
    os.environ["VERIF_TIER_ACTIVE"] = tier
    known_entries = load_known(prop)
    known = [e["signature"] for e in known_entries]
    t0 = time.time()
    job_list = []
    for i, check in enumerate(mod.CHECKS):
        if only and check.name not in only:
            continue
        shards = check.quick_shards if tier == "quick" else check.thorough_shards
        for s in range(shards):
            job_list.append((prop_module, i, tier, seed, s, known))
    results = run_jobs(job_list, max(1, jobs))
    merged = {"evaluations": 0, "labels": Counter(), "nontrivial": set(), "samples": {}, "excluded": Counter(),
              "known_hits": {}, "extra": {}, "shards": len(job_list), "per_check": {}, "notes": []}
    violations = []
    for r in results:
        if "harness_error" in r:
            raise HarnessError(r["harness_error"])
        merged["evaluations"] += r["evaluations"]
        merged["labels"].update({"%s/%s" % (r["check"], k): v for k, v in r["labels"].items()})
        merged["nontrivial"] |= {(r["check"], h) for h in r["nontrivial"]}
        for label, lst in r["samples"].items():
            bucket = merged["samples"].setdefault("%s/%s" % (r["check"], label), [])
            for s in lst:
                if len(bucket) < MAX_SAMPLES_PER_LABEL:
                    bucket.append(s)
        merged["excluded"].update(r["excluded"])
        for sig, hit in r["known_hits"].items():
            cur = merged["known_hits"].setdefault(sig, {"count": 0, "example": hit["example"],
                                                        "message": hit["message"]})
            cur["count"] += hit["count"]
        for name, val in r["extra"].items():
            key = "%s/%s" % (r["check"], name)
            cur = merged["extra"].get(key)
            if cur is None or val["value"] > cur["value"]:
                merged["extra"][key] = val
        for note in r["notes"]:
            if note not in merged["notes"] and len(merged["notes"]) < 40:
                merged["notes"].append(note)
        pc = merged["per_check"].setdefault(r["check"], {"evaluations": 0, "nontrivial": 0, "wall_s": 0.0})
        pc["evaluations"] += r["evaluations"]
        pc["nontrivial"] += len(r["nontrivial"])
        pc["wall_s"] = round(max(pc["wall_s"], r["wall"]), 2)
        if r["violation"] is not None:
            violations.append(r["violation"])
    merged["excluded"] = dict(merged["excluded"])
    wall = time.time() - t0
    # de-duplicate violations by signature (one root cause, one line)
    by_sig = {}
    for v in violations:
        by_sig.setdefault(v["signature"], v)
    write_evidence(prop, tier, seed, wall, merged, mod.RULE, list(mod.ASSUMPTIONS), len(by_sig))
    for entry in known_entries:
        sig = entry["signature"]
        hit = merged["known_hits"].get(sig)
        extra = " (reproduced %d times this run)" % hit["count"] if hit else " (not reached by this run)"
        print("KNOWN-FINDING: property=%s %s%s" % (prop, entry.get("what", sig), extra))
    code = 0
    rbase = os.path.join(os.environ.get("VERIF_REPLAY_DIR") or os.path.join(VERIF, "replays"), prop)
    if os.path.isdir(rbase) and not only:
        for old in os.listdir(rbase):
            os.remove(os.path.join(rbase, old))
    for sig, v in sorted(by_sig.items()):
        rdir = os.path.join(os.environ.get("VERIF_REPLAY_DIR") or os.path.join(VERIF, "replays"), prop)
        os.makedirs(rdir, exist_ok=True)
        name = hashlib.blake2b(sig.encode(), digest_size=4).hexdigest()
        path = os.path.join(rdir, "%s_%s.json" % (v["check"], name))
        with open(path, "w") as f:
            json.dump({"property": prop, "check": v["check"], "signature": sig, "message": v["message"],
                       "args": v["args"], "seed": v["seed"], "tier": tier}, f, indent=1)
        print("VIOLATION property=%s replay=%s" % (prop, os.path.relpath(path, VERIF)))
        print("  signature: %s" % sig)
        print("  message:   %s" % v["message"][:1500])
        code = 1
    print("%s tier=%s seed=%d evaluations=%d distinct_nontrivial=%d shards=%d wall=%.1fs -> %s" % (
        prop, tier, seed, merged["evaluations"], len(merged["nontrivial"]), len(job_list), wall,
        "VIOLATED" if code else "held"))
    return code


def unjson(x):
    if isinstance(x, str) and x in ("inf", "-inf", "nan"):
        return float(x)
    if isinstance(x, list):
        return [unjson(v) for v in x]
    if isinstance(x, dict):
        return {k: unjson(v) for k, v in x.items()}
    return x


def replay(prop_module, path):
    import importlib
    mod = importlib.import_module(prop_module)
    with open(path) as f:
        data = json.load(f)
    check = [c for c in mod.CHECKS if c.name == data["check"]]
    if not check:
        raise HarnessError("replay names unknown check %r" % data["check"])
    check = check[0]
    rec = Recorder(())
    args = unjson(data["args"])
    if isinstance(args, dict) and "rerun_shard" in args:
        # a worker process was killed inside the code under test: the reproducible unit is the whole shard
        r = args["rerun_shard"]
        res = run_jobs([(prop_module, mod.CHECKS.index(check), r["tier"], r["seed"], r["shard"], [])], 1)[0]
        if "harness_error" in res:
            raise HarnessError(res["harness_error"])
        if res["violation"] is not None:
            print("VIOLATION property=%s replay=%s" % (mod.PROPERTY, path))
            print("  signature: %s" % res["violation"]["signature"])
            print("  message:   %s" % res["violation"]["message"][:1500])
            return 1
        print("replay %s: property held" % path)
        return 0
    try:
        if check.replay is not None:
            check.replay(rec, args)
        else:
            import inspect
            params = inspect.signature(check.fn).parameters
            if "c" in params and "c" not in args and not any(p.kind == p.VAR_KEYWORD for p in params.values()):
                # bodies taking the whole case as one dictionary
                check.fn(rec, {k: v for k, v in args.items() if k not in ("first_violating_commit", "dump", "u")})
            else:
                check.fn(rec, **args)
    except Violation as v:
        print("VIOLATION property=%s replay=%s" % (mod.PROPERTY, path))
        print("  signature: %s" % v.signature)
        print("  message:   %s" % v.message[:1500])
        return 1
    except Exception as exc:
        sig = exception_signature(exc)
        if sig is None:
            raise
        print("VIOLATION property=%s replay=%s" % (mod.PROPERTY, path))
        print("  signature: %s" % sig)
        print("  message:   %s: %s" % (type(exc).__name__, exc))
        return 1
    if rec.violation is not None:
        print("VIOLATION property=%s replay=%s" % (mod.PROPERTY, path))
        print("  signature: %s" % rec.violation["signature"])
        return 1
    print("replay %s: property held" % path)
    return 0
