"""Configurations for history checks: the runnable shipped .ini files (verbatim except end time) and generated
families obtained from them by editing parameters only (never the create/trash/activate wiring)."""
import os
import re

from . import build

SHIPPED = [
    "2018_JCP_149_064113/coulomb_atoms/power_bounded.ini",
    "2018_JCP_149_064113/coulomb_atoms/power_bounded_dump.ini",
    "2018_JCP_149_064113/coulomb_atoms/cell_bounded.ini",
    "2018_JCP_149_064113/coulomb_atoms/cell_veto.ini",
    "2018_JCP_149_064113/dipoles/atom_factors.ini",
    "2018_JCP_149_064113/dipoles/cell_bounded.ini",
    "2018_JCP_149_064113/dipoles/cell_veto.ini",
    "2018_JCP_149_064113/dipoles/dipole_factors_inside_first.ini",
    "2018_JCP_149_064113/dipoles/dipole_factors_outside_first.ini",
    "2018_JCP_149_064113/dipoles/dipole_factors_ratio.ini",
    "2018_JCP_149_064113/dipoles/dipole_motion.ini",
    "2018_JCP_149_064113/water/coulomb_cell_veto_lj_cell_veto.ini",
    "2018_JCP_149_064113/water/coulomb_cell_veto_lj_inverted.ini",
    "2018_JCP_149_064113/water/coulomb_power_bounded_lj_cell_bounded.ini",
    "2018_JCP_149_064113/water/coulomb_power_bounded_lj_inverted.ini",
    "2018_JCP_149_064113/water/single_molecule.ini",
    "hard_disk_dipoles/single_hard_disk_dipole.ini",
]
# power_bounded_dump.ini: its dumping events are committed in history runs (with a drawn dumping interval) but the dump file
# itself is not written there (the instrumented mediator is not meant to be pickled); C19 writes and resumes real dumps.
# hard_disk_dipoles(.ini|_cells.ini) need MDAnalysis (PDB input), absent here.


def shipped_text(rel):
    path = os.path.join(build.scratch_root(), "jellyfysh", "config_files", rel)
    with open(path) as f:
        return f.read()


def set_option(text, section, option, value):
    """Replace (or add) option in section of an ini text."""
    lines = text.splitlines()
    out, in_section, done = [], False, False
    i = 0
    while i < len(lines):
        line = lines[i]
        m = re.match(r"^\[(.+)\]\s*$", line)
        if m:
            if in_section and not done:
                out.append("%s = %s" % (option, value))
                done = True
            in_section = (m.group(1) == section)
        if in_section and re.match(r"^%s\s*=" % re.escape(option), line):
            out.append("%s = %s" % (option, value))
            done = True
            i += 1
            # drop continuation lines of a multi-line value
            while i < len(lines) and lines[i].startswith((" ", "\t")) and lines[i].strip():
                i += 1
            continue
        out.append(line)
        i += 1
    if in_section and not done:
        out.append("%s = %s" % (option, value))
        done = True
    if not done:
        raise KeyError("section %s not found" % section)
    return "\n".join(out) + "\n"


def get_option(text, section, option, default=None):
    """Value of an option (continuation lines of a multi-line value are joined with a blank)."""
    in_section = False
    lines = text.splitlines()
    for i, line in enumerate(lines):
        m = re.match(r"^\[(.+)\]\s*$", line)
        if m:
            in_section = (m.group(1) == section)
        elif in_section:
            mm = re.match(r"^%s\s*=\s*(.*)$" % re.escape(option), line)
            if mm:
                value = mm.group(1).strip()
                j = i + 1
                while j < len(lines) and lines[j].startswith((" ", "\t")) and lines[j].strip():
                    value = (value + " " + lines[j].strip()).strip()
                    j += 1
                return value
    return default


def has_section(text, section):
    return re.search(r"^\[%s\]\s*$" % re.escape(section), text, flags=re.M) is not None


# ------------------------------------------------------------------------------------------------ generated families
from hypothesis import strategies as st  # noqa: E402

CELL_BOUNDED = {"2018_JCP_149_064113/coulomb_atoms/cell_bounded.ini", "2018_JCP_149_064113/dipoles/cell_bounded.ini",
                "2018_JCP_149_064113/water/coulomb_power_bounded_lj_cell_bounded.ini"}
NO_RESIZE = {"hard_disk_dipoles/single_hard_disk_dipole.ini"}


def sections_with(text, option):
    out = []
    cur = None
    for line in text.splitlines():
        m = re.match(r"^\[(.+)\]\s*$", line)
        if m:
            cur = m.group(1)
        elif cur and re.match(r"^%s\s*=" % re.escape(option), line):
            out.append((cur, line.split("=", 1)[1].strip()))
    return out


@st.composite
def config_case(draw, bases=None, generated=True, min_end=None, sampling_focus=False, small_sampling=False, g4_one_in=8, g5_one_in=8, g6_one_in=8, g7_one_in=8,
                cells_only=False,
                composites_only=False, max_events=(300, 1500)):
    """A configuration = shipped base + parameter edits (never wiring edits) + simulation seed + event budget."""
    pool = list(bases or SHIPPED)
    if cells_only:
        pool = [b for b in pool if "cell" in b]
    if composites_only:
        pool = [b for b in pool if "coulomb_atoms" not in b]
    base = draw(st.sampled_from(pool))
    if generated and not cells_only and bases is None and draw(st.integers(0, g4_one_in - 1)) == 0:
        # generated family G4 (hard-disk dipoles, 2-D, general velocities)
        N = draw(st.integers(2, 6))
        edits = [("SingleIndependentActiveSequentialDirectionEndOfChainEventHandler", "chain_time",
                  repr(round(draw(st.floats(0.3, 3.0)), 4))),
                 ("PolarizationSamplingEventHandler", "sampling_interval", repr(round(draw(st.floats(0.2, 5.0)), 4)))]
        if draw(st.booleans()):
            edits.append(("SingleProcessMediator", "scheduler", draw(st.sampled_from(["heap_scheduler",
                                                                                      "list_scheduler"]))))
        if min_end is not None:
            edits.append(("FinalTimeEndOfRunEventHandler", "end_of_run_time",
                          repr(round(draw(st.floats(min_end[0], min_end[1])), 4))))
        return {"base": G4, "g4_N": N, "edits": [list(e) for e in edits], "seed": draw(st.integers(0, 2 ** 31)),
                "events": draw(st.integers(max_events[0], max_events[1])), "cluster": "lattice"}
    if generated and not cells_only and bases is None and draw(st.integers(0, g7_one_in - 1)) == 0:
        # generated family G7 (three-site molecules with molecule/atom mode switching)
        N = draw(st.integers(2, 4))
        edits = [("SingleIndependentActivePeriodicDirectionEndOfChainEventHandler", "chain_time",
                  repr(round(draw(st.floats(0.3, 3.0)), 5))),
                 ("RootToLeafMode", "chain_length", repr(round(draw(st.floats(0.2, 2.0)), 4))),
                 ("LeafToRootMode", "chain_length", repr(round(draw(st.floats(0.2, 2.0)), 4))),
                 ("FixedIntervalSamplingEventHandler", "sampling_interval", repr(round(draw(st.floats(0.05, 2.0)), 4)))]
        if draw(st.booleans()):
            edits.append(("SingleProcessMediator", "scheduler", draw(st.sampled_from(["heap_scheduler",
                                                                                      "list_scheduler"]))))
        if min_end is not None:
            edits.append(("FinalTimeEndOfRunEventHandler", "end_of_run_time",
                          repr(round(draw(st.floats(min_end[0], min_end[1])), 4))))
        if not sampling_focus and draw(st.integers(0, 3)) == 0:
            tie = draw(st.sampled_from([0.5, 0.25, 1.0, 0.3]))
            edits = [(sec, opt, repr(tie) if opt in ("chain_time", "chain_length") else val) for sec, opt, val in edits]
        case = {"base": G7, "g7_N": N, "edits": [list(e) for e in edits], "seed": draw(st.integers(0, 2 ** 31)),
                "events": draw(st.integers(max_events[0], max_events[1]))}
        if sampling_focus and draw(st.booleans()):
            case["final_output"] = True
        if draw(st.booleans()):
            case["cluster"] = draw(st.sampled_from([0.3, 0.5]))
        return case
    if generated and bases is None and draw(st.integers(0, g6_one_in - 1)) == 0:
        # generated family G6 (hard-disk dipoles with a cell system, velocities of either sign)
        N = draw(st.integers(2, 6))
        general = draw(st.booleans())
        eoc = ("SingleIndependentActiveSequentialDirectionEndOfChainEventHandler" if general else
               "SingleIndependentActivePeriodicDirectionEndOfChainEventHandler")
        edits = [(eoc, "chain_time", repr(round(draw(st.floats(0.3, 3.0)), 4))),
                 ("PolarizationSamplingEventHandler", "sampling_interval", repr(round(draw(st.floats(0.2, 5.0)), 4)))]
        if general:
            edits.append((eoc, "delta_phi_degree", repr(draw(st.sampled_from([20.0, 45.0, 90.0, 100.0, 135.0, 170.0])))))
        if draw(st.booleans()):
            edits.append(("SingleProcessMediator", "scheduler", draw(st.sampled_from(["heap_scheduler",
                                                                                      "list_scheduler"]))))
        if min_end is not None:
            edits.append(("FinalTimeEndOfRunEventHandler", "end_of_run_time",
                          repr(round(draw(st.floats(min_end[0], min_end[1])), 4))))
        return {"base": G6, "g6": {"N": N, "general": general, "wide_cells": draw(st.booleans())},
                "edits": [list(e) for e in edits], "seed": draw(st.integers(0, 2 ** 31)),
                "events": draw(st.integers(max_events[0], max_events[1])), "cluster": "lattice"}
    if generated and not composites_only and bases is None and draw(st.integers(0, g5_one_in - 1)) == 0:
        # generated family G5 (cell system in a non-cubic box, 2-D or 3-D)
        dim = draw(st.sampled_from([2, 3]))
        lengths = [draw(st.sampled_from([1.0, 1.5, 2.0, 3.0])) for _ in range(dim)]
        if len(set(lengths)) == 1:
            lengths[draw(st.integers(0, dim - 1))] *= 1.5
        per = [draw(st.integers(3, 5)) for _ in range(dim)]
        N = draw(st.integers(2, 10))
        edits = [("SingleIndependentActivePeriodicDirectionEndOfChainEventHandler", "chain_time",
                  repr(round(draw(st.floats(0.2, 3.0)), 4))),
                 ("FixedIntervalSamplingEventHandler", "sampling_interval", repr(round(draw(st.floats(0.05, 2.0)), 4)))]
        if draw(st.booleans()):
            edits.append(("SingleProcessMediator", "scheduler", draw(st.sampled_from(["heap_scheduler",
                                                                                      "list_scheduler"]))))
        if draw(st.booleans()):
            edits.append(("SingleActiveCellOccupancy", "maximum_number_occupants", str(draw(st.sampled_from([1, 2, 0])))))
        edits.append(("InitialChainStartOfRunEventHandler", "initial_direction_of_motion", str(draw(st.integers(0, dim - 1)))))
        if min_end is not None:
            edits.append(("FinalTimeEndOfRunEventHandler", "end_of_run_time",
                          repr(round(draw(st.floats(min_end[0], min_end[1])), 4))))
        case = {"base": G5, "g5": {"lengths": lengths, "per_side": per, "N": N,
                                   "power": draw(st.sampled_from([1.0, 2.0, 6.0]))},
                "edits": [list(e) for e in edits], "seed": draw(st.integers(0, 2 ** 31)),
                "events": draw(st.integers(max_events[0], max_events[1]))}
        if draw(st.booleans()):
            case["cluster"] = draw(st.sampled_from([0.3, 0.6]))
        return case
    text = shipped_text(base)
    edits = []
    gen = generated and draw(st.integers(0, 3)) > 0
    n_shipped = int(sections_with(text, "number_of_root_nodes")[0][1])
    N = n_shipped
    if gen:
        if n_shipped >= 2:
            big = draw(st.booleans())
            N = draw(st.integers(2, (12 if (cells_only and "cell" in base) else 6) if ("coulomb_atoms" in base and big)
                                 else (4 if "water" not in base else 3)))
            if N != n_shipped:
                edits.append(("RandomInputHandler", "number_of_root_nodes", str(N)))
                for sec, val in sections_with(text, "number_event_handlers"):
                    edits.append((sec, "number_event_handlers", str(int(val) * (N - 1))))
        if base not in NO_RESIZE and "water" not in base and draw(st.booleans()):
            edits.append(("HypercubicSetting", "system_length", repr(draw(st.sampled_from([0.8, 1.0, 1.3, 2.0])))))
        if draw(st.booleans()):
            edits.append(("HypercubicSetting", "beta", repr(draw(st.sampled_from([0.5, 1.0, 2.0, 4.0])))))
        for sec, val in sections_with(text, "chain_time"):
            if draw(st.booleans()):
                edits.append((sec, "chain_time", repr(round(draw(st.floats(0.05, 3.0)), 6))))
        for sec, val in sections_with(text, "chain_length"):
            if draw(st.booleans()):
                edits.append((sec, "chain_length", repr(round(draw(st.floats(0.2, 2.0)), 6))))
        if sections_with(text, "chain_length") and not sampling_focus and draw(st.integers(0, 3)) == 0:
            # commensurate periods: mode switches and end-of-chain events fall on exactly the same times (legal; both
            # orders of simultaneous events are valid histories)
            tie = draw(st.sampled_from([0.5, 0.25, 1.0, 0.3]))
            edits = [e for e in edits if e[1] not in ("chain_time", "chain_length")]
            for sec, val in sections_with(text, "chain_time") + sections_with(text, "chain_length"):
                edits.append((sec, "chain_time" if "EndOfChain" in sec else "chain_length", repr(tie)))
        if draw(st.booleans()):
            edits.append(("SingleProcessMediator", "scheduler", draw(st.sampled_from(["heap_scheduler",
                                                                                      "list_scheduler"]))))
        for sec, val in sections_with(text, "cells_per_side"):
            if draw(st.booleans()):
                # sound grids only: every axis needs 2*layers+1 cells, cell-veto needs strictly more on one axis
                layers = int(get_option(text, sec, "neighbor_layers", "1"))
                lo = 2 * layers + 1
                small = draw(st.booleans())
                per = [draw(st.integers(lo, lo + (1 if small else 3))) for _ in range(3)]
                if max(per) <= lo:
                    per[draw(st.integers(0, 2))] = lo + 1
                edits.append((sec, "cells_per_side", ", ".join(str(p) for p in per)))
        # (the occupant limit of the shipped cell configurations is not edited: both the cell-veto handlers and the
        # cell-bounding handlers take exactly one target unit per cell, so a limit other than 1 is outside their domain;
        # other limits are exercised in the families G5 and G6 and in C10/cell_partition and C11/occupancy_legs)
        for sec, val in sections_with(text, "speed"):
            if draw(st.integers(0, 3)) == 0:
                edits.append((sec, "speed", repr(draw(st.sampled_from([0.5, 2.0, 1.7])))))
        dim = int(sections_with(text, "dimension")[0][1])
        for sec, val in sections_with(text, "initial_direction_of_motion"):
            if draw(st.booleans()):
                edits.append((sec, "initial_direction_of_motion", str(draw(st.integers(0, dim - 1)))))
    for sec, val in sections_with(text, "dumping_interval"):
        # shipped interval 1100 would never be reached within an event budget: always draw one that is
        edits.append((sec, "dumping_interval", repr(round(draw(st.floats(0.3, 20.0)), 4))))
    for sec, val in sections_with(text, "sampling_interval"):
        if sampling_focus or (gen and draw(st.booleans())):
            delta = draw(st.one_of(st.sampled_from([0.3, 0.1, 0.25, 0.7, 1.0, 0.56789]), st.floats(1e-2, 2.0)))
            if small_sampling:
                delta = round(draw(st.floats(0.003, 0.05)), 5)
            elif sampling_focus and draw(st.integers(0, 5)) == 0:
                delta = round(draw(st.floats(0.0015, 0.004)), 5)     # a thousand and more samples in one run
            edits.append((sec, "sampling_interval", repr(delta)))
            if sampling_focus and draw(st.booleans()):
                edits.append((sec, "first_event_time_zero", "True"))
    if min_end is not None:
        end = draw(st.one_of(st.floats(min_end[0], min_end[1]), st.integers(int(min_end[0]) + 1, int(min_end[1]))
                             .map(float)))
        for sec, val in sections_with(text, "end_of_run_time"):
            edits.append((sec, "end_of_run_time", repr(end)))
    seed = draw(st.integers(0, 2 ** 31))
    hi = max_events[1]
    if os.environ.get("VERIF_TIER_ACTIVE") == "thorough" and hi <= 1500:
        hi = 6000          # longer histories in the thorough tier
    events = draw(st.integers(max_events[0], hi))
    case = {"base": base, "edits": [list(e) for e in edits], "seed": seed, "events": events}
    if sampling_focus and draw(st.integers(0, 2)) <= (1 if "dipole_motion" in base else 0):
        # (more often where the run can end in molecule mode: the whole object then has to be advanced)
        case["final_output"] = True
    if sampling_focus and "dump" not in base and draw(st.integers(0, 3)) == 0:
        case["second_sampling"] = {"interval": round(draw(st.floats(0.05, 1.5)), 4), "zero": draw(st.booleans())}
    if "cell" in base and gen and N >= 3 and draw(st.booleans()):
        # initial configuration contracted into a corner of the box: several units per cell, surplus lists in use
        case["cluster"] = draw(st.sampled_from([0.25, 0.4, 0.6]))
    return case


G4 = "G4:hard_disk_dipoles"


def g4_text(N):
    """Generated family G4: the shipped hard_disk_dipoles.ini wiring (hard-sphere + hard-dipole factors, sequential-
    direction end of chain with general velocities in 2-D) with the PDB input handler (needs MDAnalysis, absent)
    replaced by the random input handler, N dipoles placed by the harness on a lattice (non-overlapping start)."""
    import math
    text = shipped_text("hard_disk_dipoles/hard_disk_dipoles.ini")
    m = max(1, math.ceil(math.sqrt(N) - 1e-9))
    text = set_option(text, "HypercubicSetting", "system_length", repr(3.0 * m))
    text = set_option(text, "Sphere", "number_event_handlers", str(max(1, 2 * N - 2)))
    text = set_option(text, "InputOutputHandler", "input_handler", "random_input_handler")
    # drop the PDB section, add the random input handler sections of single_hard_disk_dipole.ini
    lines, skip = [], False
    for line in text.splitlines():
        if line.strip() == "[PdbInputHandler]":
            skip = True
            continue
        if skip and line.startswith("["):
            skip = False
        if not skip:
            lines.append(line)
    text = "\n".join(lines) + "\n"
    text += ("\n[RandomInputHandler]\nrandom_node_creator = dipole_random_node_creator\nnumber_of_root_nodes = %d\n"
             "\n[DipoleRandomNodeCreator]\ncharge_values = electric_charge_values (charge_values)\n"
             "min_initial_dipole_separation = 0.96\nmax_initial_dipole_separation = 1.04\n" % N)
    return text


G6 = "G6:hard_disk_dipoles_cells"


def g6_text(N, general, wide_cells):
    """Generated family G6: the shipped hard_disk_dipoles_cells.ini wiring (hard-sphere pairs through the excluded-cells
    tagger, point masses in cells, cell-boundary events) with the PDB input handler (needs MDAnalysis, absent) replaced
    by the random input handler as in G4.  `general` swaps the shipped periodic-direction end-of-chain handler for the
    sequential-direction one of hard_disk_dipoles.ini (the section is copied from there), so that velocity components
    of either sign occur and cell walls - including the periodic one - are crossed downwards.  The cell side is 1.0 or
    1.5, never below the hard-sphere diameter 0.952."""
    import math
    text = shipped_text("hard_disk_dipoles/hard_disk_dipoles_cells.ini")
    m = max(2, math.ceil(math.sqrt(N) - 1e-9))
    text = set_option(text, "HypercubicSetting", "system_length", repr(3.0 * m))
    text = set_option(text, "CuboidPeriodicCells", "cells_per_side", str(2 * m if wide_cells else 3 * m))
    text = set_option(text, "InputOutputHandler", "input_handler", "random_input_handler")
    lines, skip = [], False
    for line in text.splitlines():
        if line.strip() == "[PdbInputHandler]":
            skip = True
            continue
        if skip and line.startswith("["):
            skip = False
        if not skip:
            lines.append(line)
    text = "\n".join(lines) + "\n"
    text += ("\n[RandomInputHandler]\nrandom_node_creator = dipole_random_node_creator\nnumber_of_root_nodes = %d\n"
             "\n[DipoleRandomNodeCreator]\ncharge_values = electric_charge_values (charge_values)\n"
             "min_initial_dipole_separation = 0.96\nmax_initial_dipole_separation = 1.04\n" % N)
    if general:
        text = set_option(text, "EndOfChain", "event_handler",
                          "single_independent_active_sequential_direction_end_of_chain_event_handler")
        text += ("\n[SingleIndependentActiveSequentialDirectionEndOfChainEventHandler]\nchain_time = 1.0\n"
                 "delta_phi_degree = 20.0\n")
    return text


G7 = "G7:water_mode_switching"


def g7_text(N):
    """Generated family G7: the shipped dipole_motion.ini wiring (molecule mode <-> atom mode through the two
    RootLeafUnitActiveSwitchers, Coulomb and repulsive factors in both modes, harmonic bonds in atom mode) populated
    with N three-site water molecules instead of two dipoles: random_node_creator, charges, bond parameters and box of
    the shipped water configurations, and a harness-written factor file in the format of factor_set_water.txt
    (two O-H bonds, O-O repulsion, Coulomb between all sites of two molecules).  No shipped configuration combines
    composite objects of more than two point masses with mode switching."""
    from . import build
    text = shipped_text("2018_JCP_149_064113/dipoles/dipole_motion.ini")
    path = os.path.join(build.scratch_root(), "verif_g7_factors.txt")
    if not os.path.exists(path):
        with open(path, "w") as f:
            f.write("[0, 1], Harmonic\n[1, 2], Harmonic\n[1, 4], Repulsive\n[0, 1, 2, 3, 4, 5], Coulomb\n")
    text = set_option(text, "FactorTypeMaps", "filename", path)
    text = set_option(text, "HypercubicSetting", "system_length", "10.0")
    text = set_option(text, "RandomInputHandler", "random_node_creator", "water_random_node_creator")
    text = set_option(text, "RandomInputHandler", "number_of_root_nodes", str(N))
    text = text.replace("[DipoleRandomNodeCreator]", "[WaterRandomNodeCreator]")
    text = set_option(text, "ElectricChargeValues", "charge_values", "0.41, -0.82, 0.41")
    text = set_option(text, "HarmonicPotential", "equilibrium_separation", "1.012")
    text = set_option(text, "HarmonicPotential", "prefactor", "529.581")
    text = set_option(text, "RepulsivePotential", "prefactor", "100.0")
    text = set_option(text, "HarmonicLeaf", "number_event_handlers", "2")
    for sec in ("CoulombLeaf", "CoulombRoot", "RepulsiveLeaf", "RepulsiveRoot"):
        text = set_option(text, sec, "number_event_handlers", str(max(1, N - 1)))
    return text


G5 = "G5:cuboid_box_cells"


def g5_text(lengths, per_side, N, power):
    """Generated family G5: the shipped coulomb_atoms/cell_bounded.ini wiring in a NON-CUBIC box.  The periodic Coulomb
    potentials exist for cubic boxes only, so the far-cell (cell-bounding) tagger is dropped from the tagger list and from
    every create/trash list, and the nearby/surplus pair handler becomes the invertible TwoLeafUnitEventHandler with an
    inverse-power potential (a short-range model: partners outside the nearby cells do not interact).  Everything else
    - cell boundary, nearby, surplus, sampling, end of chain, end/start of run - is the shipped wiring."""
    text = shipped_text("2018_JCP_149_064113/coulomb_atoms/cell_bounded.ini")
    dim = len(lengths)
    text = text.replace("    coulomb_cell_bounding (cell_bounding_potential_tagger),\n", "")
    text = text.replace("coulomb_cell_bounding, ", "").replace(", coulomb_cell_bounding", "")
    text = set_option(text, "Run", "setting", "hypercuboid_setting")
    text += "\n[HypercuboidSetting]\nsystem_lengths = %s\nbeta = 1.0\ndimension = %d\n" % (
        ", ".join(repr(x) for x in lengths), dim)
    for sec in ("CoulombNearby", "CoulombSurplus"):
        text = set_option(text, sec, "event_handler", "two_leaf_unit_event_handler")
        text = set_option(text, sec, "number_event_handlers", str(max(1, N - 1)))
    text += ("\n[TwoLeafUnitEventHandler]\npotential = inverse_power_potential\ncharge = electric_charge\n"
             "\n[InversePowerPotential]\npower = %r\nprefactor = 0.05\n" % power)
    text = set_option(text, "CuboidPeriodicCells", "cells_per_side", ", ".join(str(p) for p in per_side))
    text = set_option(text, "RandomInputHandler", "number_of_root_nodes", str(N))
    return text


def _camel(snake):
    return "".join(part.capitalize() for part in snake.split("_"))


def _snake(camel):
    return re.sub(r"(?<!^)(?=[A-Z])", "_", camel).lower()


def section_options(text, section):
    """[(option, value)] of a section, multi-line values joined."""
    out = []
    in_section = False
    for line in text.splitlines():
        m = re.match(r"^\[(.+)\]\s*$", line)
        if m:
            in_section = (m.group(1) == section)
        elif in_section and line.strip() and not line.lstrip().startswith("#"):
            if line.startswith((" ", "\t")) and out:
                out[-1] = (out[-1][0], (out[-1][1] + " " + line.strip()).strip())
            elif "=" in line:
                k, v = line.split("=", 1)
                out.append((k.strip(), v.strip()))
    return out


def add_second_sampling(text, interval, zero):
    """A second fixed-interval sampling tagger next to the shipped one (its section, its handler and its output handler
    are copies of the shipped ones under new aliases; the tag is added wherever the shipped sampling tag is created,
    trashed or activated by *other* taggers).  Two sampling handlers writing to two output handlers is a legal wiring
    that no shipped file has; each must keep its own sample times and its own output."""
    handler_sections = [sec for sec, _ in sections_with(text, "sampling_interval")]
    if len(handler_sections) != 1:
        return None
    handler_section = handler_sections[0]
    tagger_section = None
    for sec, value in sections_with(text, "event_handler"):
        if _camel(value.split("(")[0].strip()) == handler_section:
            tagger_section = sec
    if tagger_section is None:
        return None
    tag = _snake(tagger_section)
    out_name = get_option(text, handler_section, "output_handler")
    outputs = get_option(text, "InputOutputHandler", "output_handlers")
    entry = [e.strip() for e in outputs.split(",") if e.strip().split("(")[0].strip() == out_name]
    if not entry:
        return None
    out_class = entry[0].split("(")[1].rstrip(") ").strip() if "(" in entry[0] else out_name
    out_section = _camel(out_name)
    new_tag, new_handler, new_out = "verif_second_sampling", "verif_second_sampling_event_handler", \
        "verif_second_output_handler"
    # tagger list
    taggers = get_option(text, "TagActivator", "taggers")
    text = set_option(text, "TagActivator", "taggers", "\n    " + ",\n    ".join(
        [t.strip() for t in re.split(r",\s*(?![^()]*\))", taggers) if t.strip()] + ["%s (no_in_state_tagger)" % new_tag]))
    # lists of the other taggers
    for option in ("create", "trash", "activate", "deactivate"):
        for sec, value in [(s, get_option(text, s, option)) for s, _ in sections_with(text, option)]:
            if sec == tagger_section or value is None:
                continue
            items = [x.strip() for x in value.split(",") if x.strip()]
            if tag in items:
                text = set_option(text, sec, option, ", ".join(items + [new_tag]))
    text = set_option(text, "InputOutputHandler", "output_handlers", outputs.rstrip(", ") + ", %s (%s)" % (
        new_out, out_class))
    text += "\n[%s]\ncreate = %s\ntrash = %s\nevent_handler = %s (fixed_interval_sampling_event_handler)\n" % (
        _camel(new_tag), new_tag, new_tag, new_handler)
    text += "\n[%s]\nsampling_interval = %r\noutput_handler = %s\nfirst_event_time_zero = %s\n" % (
        _camel(new_handler), interval, new_out, "True" if zero else "False")
    text += "\n[%s]\n" % _camel(new_out)
    for k, v in section_options(text, out_section):
        if k == "filename":
            stem, dot, ext = v.rpartition(".")
            v = (stem + "_second." + ext) if dot else v + "_second"
        text += "%s = %s\n" % (k, v)
    return text


def add_final_output(text):
    """Connect the end-of-run handler to an output handler (its documented optional `output_handler` argument): a copy
    of the shipped sampling output handler under a new alias receives the global state at the end of the run."""
    handler_sections = [sec for sec, _ in sections_with(text, "sampling_interval")
                        if not sec.startswith("VerifSecond")]
    end_sections = [sec for sec, _ in sections_with(text, "end_of_run_time")]
    if len(handler_sections) != 1 or len(end_sections) != 1:
        return None
    out_name = get_option(text, handler_sections[0], "output_handler")
    outputs = get_option(text, "InputOutputHandler", "output_handlers")
    entry = [e.strip() for e in outputs.split(",") if e.strip().split("(")[0].strip() == out_name]
    if not entry:
        return None
    out_class = entry[0].split("(")[1].rstrip(") ").strip() if "(" in entry[0] else out_name
    new_out = "verif_final_output_handler"
    text = set_option(text, "InputOutputHandler", "output_handlers", outputs.rstrip(", ") + ", %s (%s)" % (
        new_out, out_class))
    text = set_option(text, end_sections[0], "output_handler", new_out)
    text += "\n[%s]\n" % _camel(new_out)
    for k, v in section_options(text, _camel(out_name)):
        if k == "filename":
            stem, dot, ext = v.rpartition(".")
            v = (stem + "_final." + ext) if dot else v + "_final"
        text += "%s = %s\n" % (k, v)
    return text


def materialise(case):
    text = _materialise(case)
    if case.get("final_output"):
        extended = add_final_output(text)
        if extended is not None:
            text = extended
    if case.get("second_sampling"):
        extended = add_second_sampling(text, case["second_sampling"]["interval"], case["second_sampling"]["zero"])
        if extended is not None:
            text = extended
    return text


def _materialise(case):
    if case["base"] == G5:
        text = g5_text(case["g5"]["lengths"], case["g5"]["per_side"], case["g5"]["N"], case["g5"]["power"])
        for sec, opt, val in case["edits"]:
            text = set_option(text, sec, opt, val)
        return text
    if case["base"] == G6:
        text = g6_text(case["g6"]["N"], case["g6"]["general"], case["g6"]["wide_cells"])
        for sec, opt, val in case["edits"]:
            text = set_option(text, sec, opt, val)
        return text
    if case["base"] == G7:
        text = g7_text(case["g7_N"])
        for sec, opt, val in case["edits"]:
            text = set_option(text, sec, opt, val)
        return text
    if case["base"] == G4:
        text = g4_text(case["g4_N"])
        for sec, opt, val in case["edits"]:
            text = set_option(text, sec, opt, val)
        return text
    text = shipped_text(case["base"])
    for sec, opt, val in case["edits"]:
        text = set_option(text, sec, opt, val)
    return text
