#!/venv/bin/python
"""Development aid: which lines of the package do the quick checks execute?

usage: ./tools_coverage.py [ID ...]      runs the quick checks with VERIF_COVERAGE set (evidence redirected), merges the
per-process records and prints, per source file, executable lines / executed lines, sorted by what is missing."""
import ast, json, os, shutil, subprocess, sys, tempfile
ids = sys.argv[1:] or ["C%02d" % i for i in range(1, 21)]
d = tempfile.mkdtemp(prefix="jfcov_")
try:
    for p in ids:
        env = dict(os.environ, VERIF_COVERAGE=os.path.join(d, "cov"), VERIF_EVIDENCE_DIR=os.path.join(d, "e"),
                   VERIF_REPLAY_DIR=os.path.join(d, "r"))
        r = subprocess.run(["/verif/check", p, "--tier", "quick"], env=env, capture_output=True, text=True)
        print(p, "exit", r.returncode, file=sys.stderr)
    hit = {}
    for f in os.listdir(os.path.join(d, "cov")):
        for k, v in json.load(open(os.path.join(d, "cov", f))).items():
            hit.setdefault(k, set()).update(v)
    rows = []
    for dirpath, _, files in os.walk("/repo/jellyfysh"):
        if "unittests" in dirpath:
            continue
        for f in files:
            if not f.endswith(".py") or f.endswith("_build.py"):
                continue
            path = os.path.join(dirpath, f)
            rel = os.path.relpath(path, "/repo/jellyfysh")
            tree = ast.parse(open(path).read())
            lines = set()
            for node in ast.walk(tree):
                if isinstance(node, ast.stmt) and not (isinstance(node, ast.Expr) and isinstance(node.value, ast.Constant)):
                    lines.add(node.lineno)
            got = hit.get(rel, set()) & lines
            rows.append((len(lines) - len(got), rel, len(lines), len(got), sorted(lines - got)))
    rows.sort(reverse=True)
    out = {"checks": ids, "files": [{"file": r[1], "statements": r[2], "executed": r[3], "missing": r[4]} for r in rows]}
    json.dump(out, open("/verif/coverage_quick.json", "w"), indent=0)
    tot = sum(r[2] for r in rows); got = sum(r[3] for r in rows)
    print("total statements %d executed %d (%.1f%%)" % (tot, got, 100.0 * got / tot))
    for miss, rel, n, g, lines in rows[:60]:
        print("%4d missing of %4d  %s" % (miss, n, rel))
finally:
    shutil.rmtree(d, ignore_errors=True)
