"""Source of MANIFEST.json (run ./tools_manifest.py after editing)."""
SOURCE_COMMITS = []

_PENDING = "check under construction in this round (see DESIGN.md section 3); not yet registered, nothing is claimed"

CHECKS = [
    {"id": "C14", "engine": "hypothesis-runner", "design_ref": "DESIGN.md §3 C14",
     "technique": "property-based testing (Hypothesis) against exact rational arithmetic (fractions.Fraction)",
     "text": "Generated (quotient, remainder, displacement) triples and pairs of times, weighted to carries, equal "
             "quotients/remainders, 2^52 quotients, denormals and infinity, are checked against Fraction arithmetic: "
             "normalisation, one-rounding resolution independent of the quotient, monotonicity, all six comparisons, "
             "exact from_float, subtraction accuracy, absorbing infinity. Exploration, not proof: ~70k cases quick, "
             "~6M thorough.",
     "note": "Trusted: CPython float = IEEE binary64, fractions.Fraction, Hypothesis generators. Inputs restricted to "
             "normalised times and non-negative displacements (what callers produce)."},
    {"id": "C15", "engine": "hypothesis-runner", "design_ref": "DESIGN.md §3 C15",
     "technique": "property-based testing (Hypothesis) against exact rational modular arithmetic; differential cubic vs cuboid",
     "text": "Generated box lengths, dimensions and entries k*L+f (tiny negatives, exact multiples, values next to L and L/2) "
             "are checked against Fraction arithmetic: result strictly in [0,L), congruent within one ulp(L), idempotent; "
             "separations congruent to the difference with |s|<=L/2; cubic and cuboid bit-identical; next_image adds exactly L.",
     "note": "Trusted: Fraction, IEEE doubles. Box lengths in [1e-3,1e3], |k|<=1000; separation_vector fed positions in [0,L) in three cases of four and unfolded positions k*L+f (either or both operands, tolerance 4 ulp of the largest operand) in the fourth."},
    {"id": "C16", "engine": "hypothesis-runner", "design_ref": "DESIGN.md §3 C16",
     "technique": "property-based testing (Hypothesis) against integer index arithmetic and float adjacency (nextafter); exhaustive cell pairs on small grids",
     "text": "Generated grids (1-3 dims, cubic/cuboid, 1..12/49/64 cells per side, 0-2 layers, periodic and plain) with positions on "
             "and next to every face: the returned cell's extent contains the position, extents abut and cover [0,L), and "
             "neighbour/nearby/relative/translate equal index arithmetic mod n for all pairs (exhaustive <=150 cells).",
     "note": "Trusted: the index-arithmetic model in vlib/props/C16.py. Grids limited to 2500 cells per case."},
    {"id": "C05", "engine": "hypothesis-runner", "design_ref": "DESIGN.md §3 C05",
     "technique": "property-based testing (Hypothesis) with scripted randomness: exact integration of the selection step function (thresholds by bisection) against the flow-balance identity",
     "text": "Generated zero-sum derivative tables (2-12 entries, zeros, near-cancelling values, 12 decades, overall scale 2^-200..2^200 in half of the cases, any insertion order) x 3 "
             "schemes x every positive entry as active unit: the selection as a function of the uniform draw is located exactly "
             "and integrated; inflow of each unit must equal the magnitude of its negative derivative, non-negative units are "
             "never returned (end points included), fresh and reused instances agree. Handler part: the real two-composite-object "
             "handler (shared _fill_lifting) and the three-body (bending) handler fill the scheme at one fixed configuration "
             "with every point mass of positive factor derivative active in turn; the lifted inflow must again equal the "
             "magnitudes of the negative derivatives (oracle: independent Ewald sum / finite differences of the bending energy).",
     "note": "Trusted: the substitution of the module attribute `random` (uniform(a,b)=a+(b-a)u as in CPython); bisection assumes a step function, verified by interior probes."},
    {"id": "C18", "engine": "hypothesis-runner", "design_ref": "DESIGN.md §3 C18",
     "technique": "property-based testing (Hypothesis) with scripted randomness: exact enumeration of alias-table rows x located thresholds against rate/total",
     "text": "Generated rate vectors (1-400 entries, up to 90% zeros, 12 decades, near-mean values): selection probabilities obtained "
             "by enumerating every table row and locating the break point of the second draw equal rate/total to 1e-12, total "
             "rate equals fsum, zero-rate cells never selected. Cell-veto handler (real LeafUnitCellVetoEventHandler, harness Estimator "
             "with known bounds, periodic grids, both charge signs): candidate time = e/(beta*sum max(B,0)*|q|*speed), offset "
             "probabilities = max(B,0)/sum through alias rows x thresholds and the translate mapping, confirmation threshold = "
             "q_true/(B(offset,direction)*|q|).",
     "note": "Trusted: scripted random substitution (walker, cell-veto and bounding-potential modules), harness Estimator. Rates restricted "
             "to 0 or [1e-9,1e9] with positive sum. The composite-object cell-veto handler is exercised in C07-C12 histories, not here."},
    {"id": "C02", "engine": "hypothesis-runner", "design_ref": "DESIGN.md §3 C02",
     "technique": "property-based testing (Hypothesis) with a forward oracle: cumulative uphill energy evaluated at the returned point (bracketing), contact equation + convexity for hard cores",
     "text": "Generated (potential, parameters, separation per geometric branch incl. head-on/tangential/on the minimum sphere, "
             "direction, speed, charges, budget incl. branch-boundary and denormal budgets): the returned displacement must bracket "
             "the first-passage point of the independently computed cumulative uphill energy within 1e-9, be infinite exactly when "
             "the path never accumulates the budget, and never raise / be NaN / be negative beyond rounding. Hard spheres/dipoles: "
             "contact equation and no earlier contact.",
     "note": "Trusted: vlib/oracles/uphill.py and energies.py (written from docstrings). Identity range = budgets >= 1e-6 of the "
             "largest |U| at the start/turning points; below that only totality and sign are asserted. CellBoundingPotential "
             "(constant-rate bound) is exercised through C04/C18 handlers, not here."},
    {"id": "C03", "engine": "hypothesis-runner", "design_ref": "DESIGN.md §3 C03",
     "technique": "property-based testing (Hypothesis): differential against independently written energy gradients and an independent Ewald sum (different alpha/cut-offs), metamorphic relations, finite differences for bending",
     "text": "Generated separations (bulk, faces, edges, corners, origin, axes, tangential), directions, charges, speeds, box lengths: "
             "derivative equals speed*c1c2*(-dU/ds_d) of the model energy to 1e-10; lattice sum agrees with an independent Ewald "
             "implementation (alpha=2.6) and is odd/even/face-periodic/permutation-covariant/alpha-independent/copy-stable; bending "
             "derivatives sum to zero and match central differences.",
     "note": "Trusted: vlib/oracles/energies.py, ewald.py (numpy/scipy erfc; self-checked at start-up). Lattice periodicity is probed "
             "across faces only: the C sum is truncated around a minimum-image separation by design."},
    {"id": "C04", "engine": "hypothesis-runner", "design_ref": "DESIGN.md §3 C04",
     "technique": "exhaustive lattice scan + targeted property-based search (Hypothesis target()) + coordinate-descent refinement of q_true/q_bound; scripted-randomness threshold location for the acceptance; warning counter in instrumented runs",
     "text": "Domination is searched with three generators sharing one oracle (q_true>0 => 0<q_true<=q_bound): a lattice scan of the "
             "minimum-image cube (72^3 quick / 240^3 thorough x 3 directions x 2 signs), Hypothesis draws steered by target() with a "
             "dedicated class at the edge mid-points where the supremum 0.99990 sits, and local refinement; covariance under box "
             "length, axis permutation and charge magnitude is asserted. Largest ratio found is reported in evidence. Acceptance: real "
             "TwoLeafUnitBoundingPotential (fresh, reused for another pair, deep-copied or restored by dill) and TwoCompositeObjectSummedBoundingPotential handlers under scripted draws - the break "
             "point of the hand-over in the confirmation draw equals max(0,q_true)/q_bound recomputed by independent oracles at the "
             "time-sliced separation, nothing changes above it. The cell-bounding handler (stub estimator) and the root-mode "
             "summed-bound handler are checked the same way, including the number of independent exponential draws (one per "
             "pair) and candidate time == minimum over the pairs. In runs: the code's own bounding_potential_warning must stay silent "
             "for handlers using the 1/r bound.",
     "note": "Exploration: the supremum is a limit (s_d -> 0 at an edge mid-point), margin 1e-4; a bound prefactor >= 1.58355 cannot "
             "be told from a valid one. True rate = MergedImageCoulombPotential at default Ewald parameters (tied to the converged "
             "sum by C03); noise floor 1e-11/L^2."},
    {"id": "C07", "engine": "history-monitor", "design_ref": "DESIGN.md §3 C07, §2.2",
     "technique": "property-based testing over generated run histories (Hypothesis draws configuration, seed, budget) with a per-event invariant monitor on the real mediator loop",
     "text": 'Every commit of instrumented runs (17 shipped configurations verbatim + parameter-edited variants + generated families G4 (N hard-disk dipoles, 2-D rotated velocities), G5 (cell system in a non-cubic box) G6 (hard-disk dipoles with point masses in cells, velocity components of either sign) and G7 (three-site water molecules in the molecule/atom mode-switching wiring of dipole_motion.ini), 160 histories x 300-1500 events quick, 2560 x up to 6000 thorough): monotone event time, trajectory continuity of every unit at the event time modulo the box, resting units bit-identical, exactly one moving chain at the configured speed, positions in the box, identities/charges unchanged. Sub-checks on directly drawn inputs: time_slice_helper (the shared time-slicing helper: wall coordinates, velocity residues of rotations, exact arithmetic) and end_of_chain_out_state (both end-of-chain handlers in point-mass and molecule mode, 2-D and 3-D: speed kept, object velocity = weighted sum, event time stamps). One recorded known finding (known_findings.json, DESIGN.md 8.2): the periodic-direction end-of-chain handler aborts on a rounding-level overshoot of its chain time when another periodic event falls on the same non-dyadic time.',
     "note": "Trusted: vlib/monitor.py (harness-side recomputation of trajectories with the code's own Time subtraction), instance-attribute wrappers of vlib/engine.py, private reads Mediator._state_handler/_scheduler/_activator/_input_output_handler and Activator._taggers/_internal_states. Since the repair of the nearby-cells ordering (fix 55b0c76) runs with cell systems are a pure function of the drawn case; should Hypothesis still report a non-reproducible failure the first observed violation is reported with a note. Generated configurations edit parameters of shipped files only; hard_disk_dipoles(.ini|_cells.ini) need MDAnalysis and are not runnable here."},
    {"id": "C08", "engine": "history-monitor", "design_ref": "DESIGN.md §3 C08, §2.2",
     "technique": "property-based testing over generated run histories (Hypothesis draws configuration, seed, budget) with a per-event invariant monitor on the real mediator loop",
     "text": 'At every commit of an interaction or cell-veto handler the in-state snapshot taken when its candidate was computed is compared with the global state just before the commit: same velocities, same straight-line trajectory, same positions of resting units. Sampling intervals are drawn small so that candidates regularly survive intervening events. The entry the scheduler returns must carry the current candidate time of its handler, and every time the mediator asks for the next event each candidate of such a handler still pending in the scheduler is compared with the global state in the same way (no candidate survives a change of motion of a unit it depends on).',
     "note": "Trusted: vlib/monitor.py (harness-side recomputation of trajectories with the code's own Time subtraction), instance-attribute wrappers of vlib/engine.py, private reads Mediator._state_handler/_scheduler/_activator/_input_output_handler and Activator._taggers/_internal_states. Since the repair of the nearby-cells ordering (fix 55b0c76) runs with cell systems are a pure function of the drawn case; should Hypothesis still report a non-reproducible failure the first observed violation is reported with a note. Generated configurations edit parameters of shipped files only; hard_disk_dipoles(.ini|_cells.ini) need MDAnalysis and are not runnable here."},
    {"id": "C09", "engine": "history-monitor", "design_ref": "DESIGN.md §3 C09, §2.2",
     "technique": "property-based testing over generated run histories (Hypothesis draws configuration, seed, budget) with a per-event invariant monitor on the real mediator loop; model-based property testing of the tag activator over generated wirings and event sequences",
     "text": 'Before every get_succeeding_event the pending (pushed, not trashed) in-state identifier tuples per tagger are compared, as multisets of ordered tuples, with what the tagger yields from scratch for the current active state; counts for the non-interaction taggers; TagActivatorError and exceeding the owned handlers are violations. The from-scratch generation uses the generators the taggers had before anything was deactivated and an activation model read from the configuration text. Sub-check activator_model (no run): generated wirings with arbitrary create/trash/activate/deactivate lists on the real TagActivator/Tagger classes against a model of the documented pool semantics (trashable events == pending events of the trashed tags, handlers started == in-states generated by activated taggers of the create list, TagActivatorError exactly on pool exhaustion).',
     "note": "Trusted: vlib/monitor.py (harness-side recomputation of trajectories with the code's own Time subtraction), instance-attribute wrappers of vlib/engine.py, private reads Mediator._state_handler/_scheduler/_activator/_input_output_handler and Activator._taggers/_internal_states. Since the repair of the nearby-cells ordering (fix 55b0c76) runs with cell systems are a pure function of the drawn case; should Hypothesis still report a non-reproducible failure the first observed violation is reported with a note. Generated configurations edit parameters of shipped files only; hard_disk_dipoles(.ini|_cells.ini) need MDAnalysis and are not runnable here."},
    {"id": "C11", "engine": "history-monitor", "design_ref": "DESIGN.md §3 C11, §2.2",
     "technique": "property-based testing over generated run histories (Hypothesis draws configuration, seed, budget) with a per-event invariant monitor on the real mediator loop; Hypothesis-generated leg sequences and handler in-states against a position/extent oracle",
     "text": 'On all cell configurations (shipped + edited grids/caps/N, clustered initial configurations with several units per cell, generated families G5 in a non-cubic box and G6 with downward wall crossings): right after every activator update and before every get the occupancy view (occupants per cell, surplus, active cell) is compared with the true positions; at every commit the active unit advanced to the event time must lie in its recorded cell, after a cell-boundary event in the neighbour in the direction of motion. Sub-check occupancy_legs (no run): SingleActiveCellOccupancy driven leg by leg on generated populations (crowded cells, caps, signed/zero charges behind the filter, point masses or whole objects in cells): moves inside a cell, wall crossings up and down incl. the periodic wall, hand-over of the activity to occupant/surplus/distant/filtered-out units; occupant lists, per-cell surplus lists and the active record are compared with the positions after every update(). Sub-check boundary_handler (no run): CellBoundaryEventHandler on drawn in-states (cubic/cuboid boxes, 2-7 cells per side along the axes of motion, starts in the bulk, on a wall, one ulp beside a wall, at the top of the box; 1..dim velocity components of either sign over six decades; point mass, point mass of a composite, whole object): candidate time = first wall of the own cell reached (neither earlier nor later), out-state exactly on the facing limit of the neighbour cell found by identifier arithmetic, position_to_cell changes on the crossing axis only, all units time-sliced with unchanged velocity.',
     "note": "Trusted: vlib/monitor.py (harness-side recomputation of trajectories with the code's own Time subtraction), instance-attribute wrappers of vlib/engine.py, private reads Mediator._state_handler/_scheduler/_activator/_input_output_handler and Activator._taggers/_internal_states. Since the repair of the nearby-cells ordering (fix 55b0c76) runs with cell systems are a pure function of the drawn case; should Hypothesis still report a non-reproducible failure the first observed violation is reported with a note. Generated configurations edit parameters of shipped files only; hard_disk_dipoles(.ini|_cells.ini) need MDAnalysis and are not runnable here."},
    {"id": "C12", "engine": "history-monitor", "design_ref": "DESIGN.md §3 C12, §2.2",
     "technique": "property-based testing over generated run histories (Hypothesis draws configuration, seed, budget) with a per-event invariant monitor on the real mediator loop",
     "text": 'On all composite-object configurations: at every commit and on the initial random state, per object, stored velocity == weighted sum of point-mass velocities (absent iff none moves) and stored position advanced to the event time == weighted barycentre of its point masses advanced from their own time stamps, the point masses taken as nearest images of each other (anchored at one of them, not at the stored position under test). Includes the generated families G4 (several hard-disk dipoles created by the random input handler or on a lattice) and G7 (three-site molecules with molecule/atom mode switching, which no shipped configuration combines).',
     "note": "Trusted: vlib/monitor.py (harness-side recomputation of trajectories with the code's own Time subtraction), instance-attribute wrappers of vlib/engine.py, private reads Mediator._state_handler/_scheduler/_activator/_input_output_handler and Activator._taggers/_internal_states. Since the repair of the nearby-cells ordering (fix 55b0c76) runs with cell systems are a pure function of the drawn case; should Hypothesis still report a non-reproducible failure the first observed violation is reported with a note. Generated configurations edit parameters of shipped files only; hard_disk_dipoles(.ini|_cells.ini) need MDAnalysis and are not runnable here."},
    {"id": "C13", "engine": "history-monitor", "design_ref": "DESIGN.md §3 C13, §2.2",
     "technique": "property-based testing over generated run histories (Hypothesis draws configuration, seed, budget) with a per-event invariant monitor on the real mediator loop",
     "text": 'Run part: the global-state snapshot after commit i equals the snapshot just before commit i+1 bit for bit in every generated history. Stateful part (extract/mutate/insert machine against a dictionary model) is added as a second sub-check.',
     "note": "Trusted: vlib/monitor.py (harness-side recomputation of trajectories with the code's own Time subtraction), instance-attribute wrappers of vlib/engine.py, private reads Mediator._state_handler/_scheduler/_activator/_input_output_handler and Activator._taggers/_internal_states. Since the repair of the nearby-cells ordering (fix 55b0c76) runs with cell systems are a pure function of the drawn case; should Hypothesis still report a non-reproducible failure the first observed violation is reported with a note. Generated configurations edit parameters of shipped files only; hard_disk_dipoles(.ini|_cells.ini) need MDAnalysis and are not runnable here."},
    {"id": "C17", "engine": "history-monitor", "design_ref": "DESIGN.md §3 C17, §2.2",
     "technique": "property-based testing over generated run histories (Hypothesis draws configuration, seed, budget) with a per-event invariant monitor on the real mediator loop",
     "text": 'Generated sampling intervals (incl. 0.1/0.3/0.7, first sample at zero or one interval), end times in [2,12]: k-th write right after a commit at k*interval within (k+1)*2^-52*(1+interval), every moving unit in the written state time-stamped exactly at the sample time, end-of-run event last at Time.from_float(end), number of samples == number of nominal times before the end; one history in six has 500-8000 samples, one in four a second sampling tagger with its own output handler, one in three an output handler on the end-of-run event (state written there fully time-sliced). Sub-check out_state_time_sliced: sampling and end-of-run handlers on one to three directly drawn active branches. Sub-check periodic_handlers: the bare sampling and dumping handlers are asked for up to 4000 consecutive candidate times, each compared with k*interval in Fractions (one rounding per step allowed), strictly increasing.',
     "note": "Trusted: vlib/monitor.py (harness-side recomputation of trajectories with the code's own Time subtraction), instance-attribute wrappers of vlib/engine.py, private reads Mediator._state_handler/_scheduler/_activator/_input_output_handler and Activator._taggers/_internal_states. Since the repair of the nearby-cells ordering (fix 55b0c76) runs with cell systems are a pure function of the drawn case; should Hypothesis still report a non-reproducible failure the first observed violation is reported with a note. Generated configurations edit parameters of shipped files only; hard_disk_dipoles(.ini|_cells.ini) need MDAnalysis and are not runnable here."},
    {"id": "C06", "engine": "hypothesis-runner", "design_ref": "DESIGN.md §3 C06",
     "technique": "model-based stateful property testing (Hypothesis RuleBasedStateMachine: heap vs list scheduler vs dictionary model) + coverage-guided fuzzing (libFuzzer, ASan+UBSan) of heap.c with an in-target reference model",
     "text": "Generated push/trash/get/pickle/burst/counter-overflow histories drive HeapScheduler, ListScheduler and a dictionary model "
             "together; after every get the returned handler must be live with the minimal (quotient, remainder); empty gets raise "
             "SchedulerError; an unpickled twin driven in lockstep must return the same handlers (ties included). The raw C heap is fuzzed byte-wise (insert/root/delete_events/entry, tie-heavy time alphabet, fills up to "
             "the exact reallocation capacity) with an array model inside the target and sanitizers for memory safety.",
     "note": "Trusted: the dictionary model, dill for the round trip, clang sanitizers. White-box step: HeapScheduler._minimal_valid_counter "
             "is preset (never lowered) to 2^32-k to reach the overflow branch. libFuzzer campaigns are pinned by -seed/-runs only approximately; "
             "a saved crashing input is the reproducible unit (replay re-runs it)."},
    {"id": "C10", "engine": "hypothesis-runner", "design_ref": "DESIGN.md §3 C10",
     "technique": "property-based testing (Hypothesis) on the real cell taggers / occupancy / factor-type maps against a multiset-partition oracle and a docstring model of factor files (grammar-based file generation)",
     "text": "(a) Generated boxes, grids, neighbour layers, occupant caps, 1-2 level trees, clustered / face / uniform positions, charge "
             "filters and sequences of active units (with real extract/insert and occupancy updates in between): the targets of the "
             "non-nearby family (veto: translated relative cells; bounding: tagger in-states), the nearby family and the surplus family "
             "must add up, as multisets, to all relevant units except the active one. (b) Generated factor files: tagger in-states == "
             "index sets containing the active point mass, once per other object if inter-object.",
     "note": "Trusted: the multiset oracle and the docstring model in vlib/props/C10.py; handlers behind the taggers get a harness "
             "Estimator. Whole-object motion with point-mass cells is outside the single-active-unit contract and excluded (counted)."},
    {"id": "C19", "engine": "hypothesis-runner", "design_ref": "DESIGN.md §3 C19",
     "technique": "differential property-based testing across fresh processes: generated (configuration, seed, dump schedule); original run vs. run resumed from every dump vs. run without dumping, compared record by record (float.hex times, state digests)",
     "text": "For generated configurations (12 shipped wirings incl. cell systems, mode switching, C-backed potentials; heap/list scheduler; "
             "N up to 6) a dumping tagger is wired in as in the shipped dump example; subprocesses execute the real run.main / resume.main "
             "under class-level recorders. Every resumed run must reproduce the original's suffix (handler class, candidate time bits, "
             "global-state digest, written samples) for up to 400 records, and the run with dumps must equal the run without, minus "
             "the dumping events. One recorded known finding (known_findings.json, DESIGN.md 8.2): two candidates at bit-identical "
             "times are ordered by heap layout, so a pending dumping event can change which is returned first; only a deviation "
             "whose first differing records are two different handlers at the identical time is classified as that finding.",
     "note": "Trusted: the recorders (class-level patches of non-Initializer classes only; private read Scheduler._last_returned_event), "
             "dill, blake2 digests of float.hex state. Quick tier: 36 cases x 3-6 dumps; resumed runs are compared for at most 400 records."},
    {"id": "C20", "engine": "hypothesis-runner", "design_ref": "DESIGN.md §3 C20",
     "technique": "differential property-based testing between processes with harness-induced schedules: generated (configuration, cores, per-handler answer-delay tables); multi-process vs single-process mediator under identical per-handler random streams; CPU-progress liveness criterion",
     "text": "Generated configurations without randomness in the out-state (shipped wirings with the invertible pair handler; N=2..6; "
             "composite dipoles; hard-disk dipole), 2-6 cores and drawn per-handler delays that permute the arrival order of candidate "
             "times: the multi-process run must commit exactly the single-process sequence (handler, time bits, state digest) and write "
             "the same samples, end with the end-of-run event, leave no worker alive and never stop making progress.",
     "note": "The harness does not own the OS scheduler: schedules are those induced by delays x cores (arrival orders are recorded; a failure "
             "is real when it occurs, its replay re-draws the same delays but the OS may deviate). Liveness is decided by 15 s without "
             "CPU time in the process group, a slow run is inconclusive. Per-handler streams are harness-defined. Private reads: "
             "Mediator._event_handlers_list/_state_handler/_scheduler/_input_output_handler, Scheduler._last_returned_event, "
             "MultiProcessMediator._os_processes."},
    {"id": "C01", "engine": "hypothesis-runner", "design_ref": "DESIGN.md §3 C01",
     "technique": "seeded Monte-Carlo replicas of generated (variant, seed, initial configuration) inputs with a statistical oracle: replica z-test of binned observables against independent reference distributions (shipped reversible-MC tables, numerical quadrature, closed forms); exact predicates for hard-core bounds",
     "text": "Every runnable algorithmic variant (Coulomb atoms power/cell-bounded (+cell-veto thorough), five dipole variants incl. three lifting "
             "schemes and root/leaf switching (+cell-bounded thorough), single water, single hard-disk dipole, harness-built soft pair with "
             "the invertible handler at beta 0.5/2 on heap and list schedulers) is run in 16 (quick) / 40 (thorough) independent replicas; "
             "observables read from the output handlers' files are binned into 8 reference-equiprobable bins; violation iff max|z|>6.5.",
     "note": "Statistical decision, not proof: detects bin-probability shifts of ~0.03 (quick) / ~0.012 (thorough); perturbations below ~1% of a bin "
             "are left to C02-C05. Trusted: shipped Reference*.dat tables, harness quadrature, replica independence (own seed and random "
             "initial configuration, 10% burn-in). Deterministic at a fixed VERIF_SEED."},
]

_ALL = ["C%02d" % i for i in range(1, 21)]
NOT_APPLICABLE = [{"property_id": p, "reason": _PENDING} for p in _ALL if p not in {c["id"] for c in CHECKS}]
