"""Source of MANIFEST.json (run ./tools_manifest.py after editing)."""
SOURCE_COMMITS = []

_PENDING = "check under construction in this round (see DESIGN.md section 3); not yet registered, nothing is claimed"

CHECKS = [
    {"id": "C14", "engine": "hypothesis-runner", "design_ref": "DESIGN.md §3 C14",
     "technique": "property-based testing (Hypothesis) against exact rational arithmetic (fractions.Fraction)",
     "text": "Generated (quotient, remainder, displacement) triples and pairs of times, weighted to carries, equal "
             "quotients/remainders, 2^52 quotients, denormals and infinity, are checked against Fraction arithmetic: "
             "normalisation, one-rounding resolution independent of the quotient, monotonicity, all six comparisons, "
             "exact from_float, subtraction accuracy, absorbing infinity. Exploration, not proof: ~70k cases quick, "
             "~6M thorough.",
     "note": "Trusted: CPython float = IEEE binary64, fractions.Fraction, Hypothesis generators. Inputs restricted to "
             "normalised times and non-negative displacements (what callers produce)."},
]

_ALL = ["C%02d" % i for i in range(1, 21)]
NOT_APPLICABLE = [{"property_id": p, "reason": _PENDING} for p in _ALL if p not in {c["id"] for c in CHECKS}]
