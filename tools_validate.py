#!/usr/bin/env python3-vt
"""Validate MANIFEST.json and every evidence file against the schemas."""
import json, glob, sys, jsonschema
ok = True
m = json.load(open("MANIFEST.json"))
jsonschema.validate(m, json.load(open("/root/.vp/MANIFEST.schema.json")))
es = json.load(open("/root/.vp/EVIDENCE.schema.json"))
for c in m["checks"]:
    try:
        e = json.load(open(c["evidence_file"]))
        jsonschema.validate(e, es)
        print(c["property_id"], "ok", e["tier"], e["coverage"]["evaluations"], e["coverage"]["distinct_nontrivial"], e["wall_s"])
    except Exception as exc:
        ok = False
        print(c["property_id"], "INVALID", str(exc)[:300])
sys.exit(0 if ok else 1)
