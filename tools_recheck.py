#!/venv/bin/python
"""Re-run quick checks against a filed seeded change after the checks were strengthened.

usage: ./tools_recheck.py <name under seeded/> <check ids...>
Applies seeded/<name>/patch.diff in a scratch worktree of /repo (removed afterwards), runs the checks with VERIF_REPO
pointing there and records the outcome in meta.json under "checks_quick_after_strengthening"."""
import json, os, shutil, subprocess, sys, tempfile, time
name, checks = sys.argv[1], sys.argv[2:]
src = os.path.join("/verif/seeded", name)
base = tempfile.mkdtemp(prefix="recheck_", dir="/tmp")
wt = os.path.join(base, "wt")


def sh(cmd, cwd=None, env=None):
    p = subprocess.run(cmd, shell=True, cwd=cwd, env=env, capture_output=True, text=True)
    return p.returncode, p.stdout + p.stderr


try:
    c, o = sh("git -C /repo worktree add --detach %s HEAD" % wt)
    assert c == 0, o
    c, o = sh("git apply %s" % os.path.join(src, "patch.diff"), cwd=wt)
    assert c == 0, o
    meta = json.load(open(os.path.join(src, "meta.json")))
    res = meta.setdefault("checks_quick_after_strengthening", {})
    for chk in checks:
        env = dict(os.environ, VERIF_REPO=wt, VERIF_EVIDENCE_DIR=os.path.join(base, "_e"),
                   VERIF_REPLAY_DIR=os.path.join(base, "_r"))
        t0 = time.time()
        c, o = sh("./check %s --tier quick" % chk, cwd="/verif", env=env)
        sig = [l.strip() for l in o.splitlines() if l.strip().startswith("signature:")]
        res[chk] = {"exit": c, "signatures": sig[:4], "wall_s": round(time.time() - t0)}
        print("check %s against %s: exit %d %s" % (chk, name, c, "; ".join(sig)[:200]))
    json.dump(meta, open(os.path.join(src, "meta.json"), "w"), indent=1)
finally:
    sh("git -C /repo worktree remove --force %s" % wt)
    shutil.rmtree(base, ignore_errors=True)
    sh("git -C /repo worktree prune")
