#!/usr/bin/env python3-vt
"""Writes MANIFEST.json from the table below (keeps the file valid and consistent)."""
import json, os
HERE = os.path.dirname(os.path.abspath(__file__))
from manifest_table import CHECKS, NOT_APPLICABLE, SOURCE_COMMITS
checks = []
for c in CHECKS:
    pid = c["id"]
    checks.append({
        "property_id": pid,
        "quick_cmd": "./check %s --tier quick" % pid,
        "thorough_cmd": "./check %s --tier thorough" % pid,
        "evidence_file": "evidence/%s.json" % pid,
        "replay_cmd_template": "./check %s --replay {path}" % pid,
        "engine": c["engine"],
        "level_claimed": {"category": "exploration", "text": c["text"], "design_ref": c["design_ref"]},
        "level_note": c["note"],
        "technique": c["technique"],
    })
manifest = {
    "version": 1,
    "setup_cmd": "/venv/bin/pip install --no-index --find-links /opt/veriftools/wheels --target /verif/.deps numpy scipy hypothesis >/dev/null 2>&1; /venv/bin/python -c \"import sys; sys.path.insert(0,'/verif/.deps'); import numpy, scipy, hypothesis\"",
    "hooks": {"guard": "JELLYFYSH_VERIF", "enable": "none needed: no hook was added to the repository; checks export JELLYFYSH_VERIF=1 anyway and work on a scratch copy of /repo's working tree whose cffi extensions are rebuilt from the copied .c files",
              "baseline_off_cmd": "cd /repo && /venv/bin/python -m pytest -ra -q -p no:cacheprovider --timeout=900 --continue-on-collection-errors",
              "source_commits": SOURCE_COMMITS, "add_only": True},
    "engines": [
        {"name": "hypothesis-runner", "path": "vlib/runner.py", "serves_properties": [c["id"] for c in CHECKS],
         "kind_free_text": "Hypothesis @given / stateful machines, seeded from VERIF_SEED, sharded over 16 processes, explicit oracles in vlib/oracles"},
        {"name": "history-monitor", "path": "vlib/engine.py + vlib/monitor.py + vlib/configs.py",
         "serves_properties": [c["id"] for c in CHECKS if c["engine"] == "history-monitor"],
         "kind_free_text": "instrumented in-process runs of the real single-process mediator with per-event invariant checks"},
        {"name": "libfuzzer-heap", "path": "csrc/fuzz_heap.c", "serves_properties": ["C06"],
         "kind_free_text": "libFuzzer + ASan/UBSan target for heap.c with an in-target reference model"},
    ],
    "checks": checks,
    "not_applicable": NOT_APPLICABLE,
    "notes": "Every check copies /repo/jellyfysh (working tree) to a scratch dir, rebuilds the 3 cffi extensions there and imports from the copy. Exit 0 held / 1 VIOLATION / 2 harness error. known_findings.json lists fixed and known defects.",
}
with open(os.path.join(HERE, "MANIFEST.json"), "w") as f:
    json.dump(manifest, f, indent=1)
import jsonschema
jsonschema.validate(manifest, json.load(open("/root/.vp/MANIFEST.schema.json")))
print("MANIFEST.json written:", len(checks), "checks,", len(NOT_APPLICABLE), "not applicable")
